package main

import (
	"fmt"
	"go/constant"
	"go/token"
	"go/types"
	"sort"
	"strings"

	"golang.org/x/tools/go/ssa"
)

// ------------------------------------------------------------ field accesses

type AccessKind int

const (
	AccRead AccessKind = iota
	AccWrite
	AccAtomicRead
	AccAtomicWrite
	AccAddrEscape // address taken and passed somewhere we do not model
)

func (k AccessKind) String() string {
	return [...]string{"read", "write", "atomic-read", "atomic-write", "addr-escape"}[k]
}

type Access struct {
	Field *types.Var
	Fn    *ssa.Function
	Instr ssa.Instruction // the Store / load / call
	FA    ssa.Value       // the FieldAddr / Field value
	Kind  AccessKind
	Val   ssa.Value // stored value for writes (nil otherwise)
}

func fieldOf(t types.Type, idx int) *types.Var {
	if pt, ok := t.Underlying().(*types.Pointer); ok {
		t = pt.Elem()
	}
	st, ok := t.Underlying().(*types.Struct)
	if !ok || idx >= st.NumFields() {
		return nil
	}
	return st.Field(idx)
}

// originVar maps a field of an instantiated generic struct to the field of the
// generic declaration so that lookups by p.Field work for queue[T].
func originVar(v *types.Var) *types.Var {
	if v == nil {
		return nil
	}
	return v.Origin()
}

func isAtomicCall(cc *ssa.CallCommon) (name string, ok bool) {
	sc := cc.StaticCallee()
	if sc == nil || sc.Pkg == nil || sc.Pkg.Pkg.Path() != "sync/atomic" {
		return "", false
	}
	return sc.Name(), true
}

// indexAccesses scans the whole package once.
func (p *Prog) indexAccesses() {
	if p.fieldAcc != nil {
		return
	}
	p.fieldAcc = map[*types.Var][]Access{}
	add := func(a Access) { p.fieldAcc[a.Field] = append(p.fieldAcc[a.Field], a) }
	for _, fn := range p.Funcs {
		for _, b := range fn.Blocks {
			for _, in := range b.Instrs {
				switch v := in.(type) {
				case *ssa.Field:
					f := originVar(fieldOf(v.X.Type(), v.Field))
					if f != nil {
						add(Access{Field: f, Fn: fn, Instr: v, FA: v, Kind: AccRead})
					}
				case *ssa.FieldAddr:
					f := originVar(fieldOf(v.X.Type(), v.Field))
					if f == nil {
						continue
					}
					refs := v.Referrers()
					if refs == nil {
						continue
					}
					// (*uint32)(&x.f) handed to sync/atomic: look through the pointer conversion
					var all []ssa.Instruction
					for _, r := range *refs {
						conv, isConv := r.(*ssa.ChangeType)
						if !isConv {
							if cv, ok := r.(*ssa.Convert); ok {
								if rr := cv.Referrers(); rr != nil {
									onlyAtomic := len(*rr) > 0
									for _, x := range *rr {
										if ci, ok := x.(ssa.CallInstruction); ok {
											if _, isAt := isAtomicCall(ci.Common()); isAt {
												continue
											}
										}
										onlyAtomic = false
									}
									if onlyAtomic {
										for _, x := range *rr {
											ci := x.(ssa.CallInstruction)
											n, _ := isAtomicCall(ci.Common())
											k := AccAtomicWrite
											if strings.HasPrefix(n, "Load") {
												k = AccAtomicRead
											}
											add(Access{Field: f, Fn: fn, Instr: x, FA: v, Kind: k})
										}
										continue
									}
								}
							}
							all = append(all, r)
							continue
						}
						rr := conv.Referrers()
						onlyAtomic := rr != nil && len(*rr) > 0
						if rr != nil {
							for _, x := range *rr {
								if ci, ok := x.(ssa.CallInstruction); ok {
									if _, isAt := isAtomicCall(ci.Common()); isAt {
										continue
									}
								}
								onlyAtomic = false
							}
						}
						if onlyAtomic {
							for _, x := range *rr {
								ci := x.(ssa.CallInstruction)
								n, _ := isAtomicCall(ci.Common())
								k := AccAtomicWrite
								if strings.HasPrefix(n, "Load") {
									k = AccAtomicRead
								}
								add(Access{Field: f, Fn: fn, Instr: x, FA: v, Kind: k})
							}
							continue
						}
						all = append(all, r)
					}
					for _, r := range all {
						switch rr := r.(type) {
						case *ssa.Store:
							if rr.Addr == v {
								add(Access{Field: f, Fn: fn, Instr: rr, FA: v, Kind: AccWrite, Val: rr.Val})
							} else {
								add(Access{Field: f, Fn: fn, Instr: rr, FA: v, Kind: AccAddrEscape})
							}
						case *ssa.UnOp:
							if rr.Op == token.MUL {
								add(Access{Field: f, Fn: fn, Instr: rr, FA: v, Kind: AccRead})
							}
						case *ssa.FieldAddr, *ssa.IndexAddr:
							// nested field/element of this field: a read of the
							// outer field for our purposes is not implied.
						case *ssa.DebugRef:
						case ssa.CallInstruction:
							cc := rr.Common()
							if n, ok := isAtomicCall(cc); ok {
								k := AccAtomicWrite
								if strings.HasPrefix(n, "Load") {
									k = AccAtomicRead
								}
								var val ssa.Value
								if len(cc.Args) > 1 {
									val = cc.Args[len(cc.Args)-1]
								}
								add(Access{Field: f, Fn: fn, Instr: rr, FA: v, Kind: k, Val: val})
							} else if isMethodOnFieldValue(cc, v) {
								// x.f.Method() with pointer receiver (sync.Mutex,
								// atomic.Value ...): neither read nor write of f.
							} else {
								add(Access{Field: f, Fn: fn, Instr: rr, FA: v, Kind: AccAddrEscape})
							}
						default:
							if _, isInstr := r.(ssa.Instruction); isInstr {
								add(Access{Field: f, Fn: fn, Instr: r, FA: v, Kind: AccAddrEscape})
							}
						}
					}
				}
			}
		}
	}
}

func isMethodOnFieldValue(cc *ssa.CallCommon, fa ssa.Value) bool {
	if cc.IsInvoke() {
		return false
	}
	sc := cc.StaticCallee()
	if sc == nil || sc.Signature.Recv() == nil {
		return false
	}
	return len(cc.Args) > 0 && cc.Args[0] == fa
}

func (p *Prog) Accesses(f *types.Var) []Access {
	p.indexAccesses()
	return p.fieldAcc[f]
}

func (p *Prog) Writes(f *types.Var) []Access {
	var out []Access
	for _, a := range p.Accesses(f) {
		if a.Kind == AccWrite || a.Kind == AccAtomicWrite || a.Kind == AccAddrEscape {
			out = append(out, a)
		}
	}
	return out
}

func (p *Prog) Reads(f *types.Var) []Access {
	var out []Access
	for _, a := range p.Accesses(f) {
		if a.Kind == AccRead || a.Kind == AccAtomicRead {
			out = append(out, a)
		}
	}
	return out
}

// ------------------------------------------------------------ call sites

type CallSite struct {
	Fn    *ssa.Function // enclosing
	Instr ssa.CallInstruction
}

// CallSitesOf returns the static/invoke call sites (incl. go/defer) whose
// callee may be target.
func (p *Prog) CallSitesOf(target *ssa.Function) []CallSite {
	var out []CallSite
	for _, e := range p.cgIn[target] {
		if e.Kind == "ref" {
			continue
		}
		if ci, ok := e.Site.(ssa.CallInstruction); ok {
			out = append(out, CallSite{e.From, ci})
		}
	}
	return out
}

// RefSitesOf returns places where target is used as a value.
func (p *Prog) RefSitesOf(target *ssa.Function) []cgEdge {
	var out []cgEdge
	for _, e := range p.cgIn[target] {
		if e.Kind == "ref" {
			out = append(out, e)
		}
	}
	return out
}

// calleesOfInstr returns possible in-package callees of a call instruction.
func (p *Prog) calleesOfInstr(in ssa.Instruction) []*ssa.Function {
	fn := in.Parent()
	var out []*ssa.Function
	for _, e := range p.cg[fn] {
		if e.Site == in && e.Kind != "ref" {
			out = append(out, e.To)
		}
	}
	return out
}

// staticCallee of an instruction, or nil.
func staticCallee(in ssa.Instruction) *ssa.Function {
	ci, ok := in.(ssa.CallInstruction)
	if !ok {
		return nil
	}
	return ci.Common().StaticCallee()
}

// isCallTo reports whether v is a call (value) to fn.
func isCallTo(v ssa.Value, fn *ssa.Function) (*ssa.Call, bool) {
	c, ok := v.(*ssa.Call)
	if !ok || fn == nil {
		return nil, false
	}
	sc := c.Call.StaticCallee()
	if sc == fn || (sc != nil && sc.Origin() == fn) {
		return c, true
	}
	return nil, false
}

// ------------------------------------------------------------ dominance

func dominates(a, b *ssa.BasicBlock) bool { return a.Dominates(b) }

// edgeDominates: does the CFG edge from->to dominate block b?
func edgeDominates(from, to, b *ssa.BasicBlock) bool {
	if !to.Dominates(b) {
		return false
	}
	for _, pr := range to.Preds {
		if pr == from {
			continue
		}
		if !to.Dominates(pr) {
			return false
		}
	}
	// if both successors are the same block the edge carries no information
	n := 0
	for _, s := range from.Succs {
		if s == to {
			n++
		}
	}
	return n == 1
}

type CondEdge struct {
	If    *ssa.If
	Cond  ssa.Value
	Taken bool
}

// DomConds lists the branch outcomes that hold whenever block b executes.
func DomConds(b *ssa.BasicBlock) []CondEdge {
	var out []CondEdge
	for d := b.Idom(); d != nil; d = d.Idom() {
		if len(d.Instrs) == 0 {
			continue
		}
		ifi, ok := d.Instrs[len(d.Instrs)-1].(*ssa.If)
		if !ok {
			continue
		}
		if edgeDominates(d, d.Succs[0], b) {
			out = append(out, CondEdge{ifi, ifi.Cond, true})
		} else if edgeDominates(d, d.Succs[1], b) {
			out = append(out, CondEdge{ifi, ifi.Cond, false})
		}
	}
	return out
}

// normCond strips negations: returns the underlying value and effective polarity.
func normCond(v ssa.Value, taken bool) (ssa.Value, bool) {
	for {
		u, ok := v.(*ssa.UnOp)
		if ok && u.Op == token.MUL {
			// a boolean parked in a local (or a field of a local struct) and read back:
			// "res.advanced = cond; if res.advanced {…}" tests cond
			if w := forwardLocalStore(u); w != nil {
				v = w
				continue
			}
		}
		if !ok || u.Op != token.NOT {
			return v, taken
		}
		v = u.X
		taken = !taken
	}
}

// forwardLocalStore: ld loads a boolean from a local slot (an Alloc of the same function,
// or a field of one) that has exactly one store, and that store dominates the load:
// returns the stored value.
func forwardLocalStore(ld *ssa.UnOp) ssa.Value {
	bt, isB := ld.Type().Underlying().(*types.Basic)
	if !isB || bt.Kind() != types.Bool {
		return nil
	}
	var al *ssa.Alloc
	field := -1
	switch a := ld.X.(type) {
	case *ssa.Alloc:
		al = a
	case *ssa.FieldAddr:
		if x, ok := a.X.(*ssa.Alloc); ok {
			al, field = x, a.Field
		}
	}
	if al == nil || al.Parent() != ld.Parent() {
		return nil
	}
	var stores []*ssa.Store
	escapes := false
	for _, r := range *al.Referrers() {
		switch x := r.(type) {
		case *ssa.Store:
			if x.Addr == ssa.Value(al) {
				if field < 0 {
					stores = append(stores, x)
				} else {
					escapes = true // whole-struct store: give up
				}
			}
		case *ssa.FieldAddr:
			if field >= 0 && x.Field == field {
				for _, rr := range *x.Referrers() {
					if st, ok := rr.(*ssa.Store); ok && st.Addr == ssa.Value(x) {
						stores = append(stores, st)
					}
				}
			}
		case *ssa.MakeClosure, ssa.CallInstruction:
			escapes = true
		}
	}
	if escapes || len(stores) != 1 || !InstrDominates(stores[0], ld) {
		return nil
	}
	return stores[0].Val
}

// A CondPat decides whether "cond evaluated to taken" establishes the wanted fact.
type CondPat func(cond ssa.Value, taken bool) bool

// DominatedBy reports whether some dominating branch outcome of instr matches pat.
func DominatedBy(in ssa.Instruction, pat CondPat) bool {
	return BlockDominatedBy(in.Block(), pat)
}

func BlockDominatedBy(b *ssa.BasicBlock, pat CondPat) bool {
	for _, ce := range DomConds(b) {
		c, t := normCond(ce.Cond, ce.Taken)
		if pat(c, t) {
			return true
		}
	}
	return false
}

// CallCond: condition is a call to fn whose args satisfy argPats (nil = any)
// and whose outcome is want.
func CallCond(fn *ssa.Function, want bool, argPats ...VPat) CondPat {
	if _, _, isSna := snaHelper(fn); isSna && len(argPats) <= 2 {
		return snaCond(fn, want, argPats)
	}
	return func(c ssa.Value, taken bool) bool {
		call, ok := isCallTo(c, fn)
		if !ok || taken != want {
			return false
		}
		args := call.Call.Args
		if fn.Signature.Recv() != nil && len(args) > 0 {
			// keep receiver as arg 0 for methods
		}
		for i, ap := range argPats {
			if ap == nil {
				continue
			}
			if i >= len(args) || !ap(args[i]) {
				return false
			}
		}
		return true
	}
}

func invertOp(op token.Token) token.Token {
	switch op {
	case token.EQL:
		return token.NEQ
	case token.NEQ:
		return token.EQL
	case token.LSS:
		return token.GEQ
	case token.GEQ:
		return token.LSS
	case token.GTR:
		return token.LEQ
	case token.LEQ:
		return token.GTR
	}
	return token.ILLEGAL
}

func swapOp(op token.Token) token.Token {
	switch op {
	case token.LSS:
		return token.GTR
	case token.GTR:
		return token.LSS
	case token.LEQ:
		return token.GEQ
	case token.GEQ:
		return token.LEQ
	}
	return op
}

// CmpCond: the established fact is "x op y" (after polarity / swap normalisation).
func CmpCond(op token.Token, x, y VPat) CondPat {
	return func(c ssa.Value, taken bool) bool {
		b, ok := c.(*ssa.BinOp)
		if !ok {
			return false
		}
		eff := b.Op
		if !taken {
			eff = invertOp(eff)
		}
		if eff == token.ILLEGAL {
			return false
		}
		if eff == op && x(b.X) && y(b.Y) {
			return true
		}
		if swapOp(eff) == op && x(b.Y) && y(b.X) {
			return true
		}
		return false
	}
}

// BoolCond: the condition value itself matches pat and outcome is want.
func BoolCond(pat VPat, want bool) CondPat {
	return func(c ssa.Value, taken bool) bool { return taken == want && pat(c) }
}

// ------------------------------------------------------------ value patterns

type VPat func(v ssa.Value) bool

func AnyV(ssa.Value) bool { return true }

func unconv(v ssa.Value) ssa.Value {
	for {
		switch x := v.(type) {
		case *ssa.Convert:
			v = x.X
		case *ssa.ChangeType:
			v = x.X
		default:
			return v
		}
	}
}

// IsLoadOf: v is a load (or atomic load) of the given field.
func IsLoadOf(f *types.Var) VPat { return withHelpers(isLoadOf0(f)) }

func isLoadOf0(f *types.Var) VPat {
	return func(v ssa.Value) bool {
		v = unconv(v)
		switch x := v.(type) {
		case *ssa.UnOp:
			if x.Op != token.MUL {
				return false
			}
			fa, ok := x.X.(*ssa.FieldAddr)
			return ok && originVar(fieldOf(fa.X.Type(), fa.Field)) == f
		case *ssa.Field:
			return originVar(fieldOf(x.X.Type(), x.Field)) == f
		case *ssa.Call:
			if n, ok := isAtomicCall(&x.Call); ok && strings.HasPrefix(n, "Load") && len(x.Call.Args) == 1 {
				fa, ok := x.Call.Args[0].(*ssa.FieldAddr)
				return ok && originVar(fieldOf(fa.X.Type(), fa.Field)) == f
			}
		}
		return false
	}
}

// withHelpers makes a value pattern transparent to single-return helpers and
// to parameters of single-call-site private helpers (see helpers.go).
func withHelpers(pat VPat) VPat {
	return func(v ssa.Value) bool { return viaHelper(pat, v) }
}

// IsCallOf: v is a call to fn.
func IsCallOf(fn *ssa.Function) VPat {
	return withHelpers(func(v ssa.Value) bool {
		_, ok := isCallTo(unconv(v), fn)
		return ok
	})
}

func IsConstInt(n int64) VPat {
	return func(v ssa.Value) bool {
		c, ok := unconv(v).(*ssa.Const)
		if !ok || c.Value == nil || c.Value.Kind() != constant.Int {
			return false
		}
		x, exact := constant.Int64Val(c.Value)
		return exact && x == n
	}
}

func IsConstBool(b bool) VPat {
	return func(v ssa.Value) bool {
		c, ok := v.(*ssa.Const)
		if !ok || c.Value == nil || c.Value.Kind() != constant.Bool {
			return false
		}
		return constant.BoolVal(c.Value) == b
	}
}

func IsParam(fn *ssa.Function, idx int) VPat {
	return func(v ssa.Value) bool {
		return idx < len(fn.Params) && unconv(v) == fn.Params[idx]
	}
}

func IsValue(w ssa.Value) VPat { return func(v ssa.Value) bool { return unconv(v) == w } }

func Or(ps ...VPat) VPat {
	return func(v ssa.Value) bool {
		for _, p := range ps {
			if p(v) {
				return true
			}
		}
		return false
	}
}

// BinV: v = x op y
func BinV(op token.Token, x, y VPat) VPat { return withHelpers(binV0(op, x, y)) }

func binV0(op token.Token, x, y VPat) VPat {
	return func(v ssa.Value) bool {
		b, ok := unconv(v).(*ssa.BinOp)
		if !ok || b.Op != op {
			return false
		}
		if x(b.X) && y(b.Y) {
			return true
		}
		if (op == token.ADD || op == token.MUL) && x(b.Y) && y(b.X) {
			return true
		}
		return false
	}
}

// Derives: v depends (through arithmetic, conversions, phis, slicing, len,
// field loads of locals are NOT followed) on a value matching pat.
func Derives(pat VPat) VPat {
	return func(v ssa.Value) bool { return derives(v, pat, map[ssa.Value]bool{}) }
}

func derives(v ssa.Value, pat VPat, seen map[ssa.Value]bool) bool {
	if v == nil || seen[v] {
		return false
	}
	seen[v] = true
	if pat(v) {
		return true
	}
	switch x := v.(type) {
	case *ssa.BinOp:
		return derives(x.X, pat, seen) || derives(x.Y, pat, seen)
	case *ssa.UnOp:
		if x.Op == token.MUL {
			return false
		}
		return derives(x.X, pat, seen)
	case *ssa.Convert:
		return derives(x.X, pat, seen)
	case *ssa.ChangeType:
		return derives(x.X, pat, seen)
	case *ssa.Phi:
		for _, e := range x.Edges {
			if derives(e, pat, seen) {
				return true
			}
		}
	case *ssa.Slice:
		return derives(x.X, pat, seen)
	case *ssa.Extract:
		if call, ok := x.Tuple.(*ssa.Call); ok {
			if rs := helperReturns(call, x.Index); rs != nil {
				for _, r := range rs {
					if derives(r, pat, seen) {
						return true
					}
				}
				return false
			}
		}
		return derives(x.Tuple, pat, seen)
	case *ssa.Parameter:
		// a parameter of a private helper derives from what its call sites pass
		if curProg != nil && x.Parent() != nil && curProg.PrivateHelper(x.Parent()) {
			for i, q := range x.Parent().Params {
				if q != x {
					continue
				}
				for _, cs := range curProg.CallSitesOf(x.Parent()) {
					if i < len(cs.Instr.Common().Args) && derives(cs.Instr.Common().Args[i], pat, seen) {
						return true
					}
				}
			}
		}
	case *ssa.Call:
		if rs := helperReturns(x, 0); rs != nil {
			for _, r := range rs {
				if derives(r, pat, seen) {
					return true
				}
			}
			return false
		}
		if b, ok := x.Call.Value.(*ssa.Builtin); ok {
			switch b.Name() {
			case "len", "cap", "min", "max":
				for _, a := range x.Call.Args {
					if derives(a, pat, seen) {
						return true
					}
				}
			}
		}
	}
	return false
}

// ------------------------------------------------------------ path queries

// instrIndex returns the index of in within its block.
func instrIndex(in ssa.Instruction) int {
	for i, x := range in.Block().Instrs {
		if x == in {
			return i
		}
	}
	return -1
}

// PathOpts tunes MustPass.
type PathOpts struct {
	// Stop marks instructions at which a path counts as discharged for another
	// reason (e.g. teardown).
	Stop func(ssa.Instruction) bool
	// Feasible filters CFG edges (nil = all feasible).
	Feasible func(from *ssa.BasicBlock, succIdx int) bool
	// Facts seeds boolean facts known at the start (e.g. "this call returned true").
	Facts map[ssa.Value]bool
	// Fail marks instructions that must NOT be reached before the target.
	Fail func(ssa.Instruction) bool
	// ExitOK: reaching a function exit without the target is acceptable
	// (used with Fail: "no path reaches X without passing the target").
	ExitOK bool
}

// MustPass reports whether every path from just after `from` to a function
// exit passes an instruction satisfying target. Deferred calls that were
// registered on every path to `from` (their Defer dominates it) or that are
// registered later on the path count when the path reaches RunDefers. On
// failure the offending exit is returned.
func MustPass(from ssa.Instruction, target func(ssa.Instruction) bool, stop func(ssa.Instruction) bool) (bool, ssa.Instruction) {
	return MustPassOpt(from.Block(), instrIndex(from)+1, from, target, PathOpts{Stop: stop})
}

// MustPassFromBlock starts at the first instruction of block b.
func MustPassFromBlock(b *ssa.BasicBlock, target func(ssa.Instruction) bool, opts PathOpts) (bool, ssa.Instruction) {
	return MustPassOpt(b, 0, nil, target, opts)
}

func MustPassOpt(startB *ssa.BasicBlock, startI int, from ssa.Instruction, target func(ssa.Instruction) bool, opts PathOpts) (bool, ssa.Instruction) {
	fn := startB.Parent()
	deferOK := false
	for _, b := range fn.Blocks {
		for _, in := range b.Instrs {
			if d, ok := in.(*ssa.Defer); ok && target(d) {
				if b == startB && instrIndex(d) < startI {
					deferOK = true
				} else if b != startB && b.Dominates(startB) {
					deferOK = true
				}
			}
		}
	}
	// The walk is path-sensitive in boolean facts: outcomes of branches taken
	// and values of bool φ-nodes determined by the edge they were entered by.
	type facts map[ssa.Value]bool
	enc := func(f facts) string {
		keys := make([]string, 0, len(f))
		for k, v := range f {
			keys = append(keys, fmt.Sprintf("%p=%v", k, v))
		}
		sort.Strings(keys)
		return strings.Join(keys, ",")
	}
	var eval func(v ssa.Value, f facts) (bool, bool)
	eval = func(v ssa.Value, f facts) (bool, bool) {
		if c, ok := v.(*ssa.Const); ok && c.Value != nil && c.Value.Kind() == constant.Bool {
			return constant.BoolVal(c.Value), true
		}
		if u, ok := v.(*ssa.UnOp); ok && u.Op == token.NOT {
			if b, known := eval(u.X, f); known {
				return !b, true
			}
			return false, false
		}
		b, ok := f[v]
		return b, ok
	}
	seen := map[string]bool{}
	var bad ssa.Instruction
	steps := 0
	var walk func(b *ssa.BasicBlock, i int, sawDefer bool, f facts) bool
	walk = func(b *ssa.BasicBlock, i int, sawDefer bool, f facts) bool {
		steps++
		if steps > 200000 {
			bad = b.Instrs[0]
			return false
		}
		for ; i < len(b.Instrs); i++ {
			in := b.Instrs[i]
			if _, isDefer := in.(*ssa.Defer); isDefer {
				if target(in) || helperAlwaysPasses(in, target, 0) {
					sawDefer = true
				}
				continue
			}
			if target(in) || helperAlwaysPasses(in, target, 0) {
				return true
			}
			if opts.Stop != nil && opts.Stop(in) {
				return true
			}
			if opts.Fail != nil && opts.Fail(in) {
				bad = in
				return false
			}
			switch in.(type) {
			case *ssa.RunDefers:
				if sawDefer || deferOK {
					return true
				}
			case *ssa.Return, *ssa.Panic:
				if opts.ExitOK {
					return true
				}
				bad = in
				return false
			}
		}
		if len(b.Succs) == 0 {
			if opts.ExitOK {
				return true
			}
			bad = b.Instrs[len(b.Instrs)-1]
			return false
		}
		var ifi *ssa.If
		if x, ok := b.Instrs[len(b.Instrs)-1].(*ssa.If); ok {
			ifi = x
		}
		for si, s := range b.Succs {
			if opts.Feasible != nil && !opts.Feasible(b, si) {
				continue
			}
			nf := facts{}
			for k, v := range f {
				nf[k] = v
			}
			if ifi != nil && b.Succs[0] != b.Succs[1] {
				want := si == 0
				if bv, known := eval(ifi.Cond, f); known && bv != want {
					continue // contradicts a fact established on this path
				}
				c, t := normCond(ifi.Cond, want)
				nf[c] = t
			}
			// φ-nodes of the successor take the value of this edge
			predIx := -1
			for pi, p := range s.Preds {
				if p == b {
					predIx = pi
				}
			}
			type upd struct {
				phi ssa.Value
				val bool
				ok  bool
			}
			var upds []upd
			for _, in := range s.Instrs {
				phi, ok := in.(*ssa.Phi)
				if !ok {
					break
				}
				if bt, isB := phi.Type().Underlying().(*types.Basic); !isB || bt.Kind() != types.Bool {
					continue
				}
				if predIx >= 0 {
					bv, known := eval(phi.Edges[predIx], nf)
					upds = append(upds, upd{phi, bv, known})
				}
			}
			for _, u := range upds {
				if u.ok {
					nf[u.phi] = u.val
				} else {
					delete(nf, u.phi)
				}
			}
			key := fmt.Sprintf("%d|%v|%s", s.Index, sawDefer, enc(nf))
			if seen[key] {
				continue
			}
			seen[key] = true
			if !walk(s, 0, sawDefer, nf) {
				return false
			}
		}
		return true
	}
	init := facts{}
	for k, v := range opts.Facts {
		init[k] = v
	}
	ok := walk(startB, startI, false, init)
	return ok, bad
}

// AlwaysCalls: every path through fn from entry to exit calls (transitively,
// depth-bounded) a function in targets.
func (p *Prog) AlwaysCalls(fn *ssa.Function, targets map[*ssa.Function]bool, depth int) bool {
	memo := map[*ssa.Function]int{} // 0 unknown,1 in progress,2 yes,3 no
	var rec func(f *ssa.Function, d int) bool
	rec = func(f *ssa.Function, d int) bool {
		if targets[f] {
			return true
		}
		if f == nil || f.Blocks == nil || d < 0 {
			return false
		}
		switch memo[f] {
		case 1, 3:
			return false
		case 2:
			return true
		}
		memo[f] = 1
		isT := func(in ssa.Instruction) bool {
			ci, ok := in.(ssa.CallInstruction)
			if !ok {
				return false
			}
			if _, isGo := in.(*ssa.Go); isGo {
				return false
			}
			sc := ci.Common().StaticCallee()
			if sc == nil {
				return false
			}
			return rec(sc, d-1)
		}
		ok := entryMustPass(f, isT)
		if ok {
			memo[f] = 2
		} else {
			memo[f] = 3
		}
		return ok
	}
	return rec(fn, depth)
}

func entryMustPass(f *ssa.Function, target func(ssa.Instruction) bool) bool {
	if len(f.Blocks) == 0 {
		return false
	}
	seen := map[*ssa.BasicBlock]bool{f.Blocks[0]: true}
	var walk func(b *ssa.BasicBlock, sawDefer bool) bool
	walk = func(b *ssa.BasicBlock, sawDefer bool) bool {
		for _, in := range b.Instrs {
			if _, isDefer := in.(*ssa.Defer); isDefer {
				if target(in) {
					sawDefer = true
				}
				continue
			}
			if target(in) {
				return true
			}
			switch in.(type) {
			case *ssa.RunDefers:
				if sawDefer {
					return true
				}
			case *ssa.Return, *ssa.Panic:
				return false
			}
		}
		if len(b.Succs) == 0 {
			return false
		}
		for _, s := range b.Succs {
			if seen[s] {
				continue
			}
			seen[s] = true
			if !walk(s, sawDefer) {
				return false
			}
		}
		return true
	}
	return walk(f.Blocks[0], false)
}

// CallTargetPred builds a MustPass target: a call whose (static) callee
// always-calls one of fns.
func (p *Prog) CallTargetPred(depth int, fns ...*ssa.Function) func(ssa.Instruction) bool {
	set := map[*ssa.Function]bool{}
	for _, f := range fns {
		if f != nil {
			set[f] = true
		}
	}
	return func(in ssa.Instruction) bool {
		ci, ok := in.(ssa.CallInstruction)
		if !ok {
			return false
		}
		if _, isGo := in.(*ssa.Go); isGo {
			return false
		}
		sc := ci.Common().StaticCallee()
		if sc == nil {
			return false
		}
		return p.AlwaysCalls(sc, set, depth)
	}
}

// CanReach: is there a CFG path from instruction a to instruction b (same fn)?
func CanReach(a, b ssa.Instruction) bool {
	if a.Parent() != b.Parent() {
		return false
	}
	if a.Block() == b.Block() && instrIndex(a) < instrIndex(b) {
		return true
	}
	seen := map[*ssa.BasicBlock]bool{}
	work := append([]*ssa.BasicBlock{}, a.Block().Succs...)
	for len(work) > 0 {
		x := work[0]
		work = work[1:]
		if seen[x] {
			continue
		}
		seen[x] = true
		if x == b.Block() {
			return true
		}
		work = append(work, x.Succs...)
	}
	return false
}

// InstrDominates: a executes before b on every path to b.
func InstrDominates(a, b ssa.Instruction) bool {
	if a.Parent() != b.Parent() {
		return crossDominates(a, b, 0)
	}
	if a.Parent() != b.Parent() {
		return false
	}
	if a.Block() == b.Block() {
		return instrIndex(a) < instrIndex(b)
	}
	return a.Block().Dominates(b.Block())
}

// forEachInstr visits all instructions in fn.
func forEachInstr(fn *ssa.Function, f func(ssa.Instruction)) {
	if fn == nil {
		return
	}
	for _, b := range fn.Blocks {
		for _, in := range b.Instrs {
			f(in)
		}
	}
}

// callsIn returns call instructions in fn to callee (static, incl. defer).
func callsIn(fn, callee *ssa.Function) []ssa.CallInstruction {
	var out []ssa.CallInstruction
	forEachInstr(fn, func(in ssa.Instruction) {
		if ci, ok := in.(ssa.CallInstruction); ok {
			sc := ci.Common().StaticCallee()
			if sc != nil && (sc == callee || sc.Origin() == callee) {
				out = append(out, ci)
			}
		}
	})
	return out
}

// constValue returns the int64 value of v if it is an integer constant.
func constInt(v ssa.Value) (int64, bool) {
	c, ok := unconv(v).(*ssa.Const)
	if !ok || c.Value == nil || c.Value.Kind() != constant.Int {
		return 0, false
	}
	return constant.Int64Val(c.Value)
}

// ------------------------------------------------------------ flag-correlated dominance

type condFact struct {
	Cond  ssa.Value
	Taken bool
}

// DomFacts returns branch outcomes that hold whenever block b executes,
// including those implied through boolean flag variables: if b is dominated by
// an outcome of a bool φ with constant edges, only the predecessors whose edge
// constant agrees can have led here, so facts common to those predecessors
// (including the outcome of their own terminating branch) also hold.
func DomFacts(b *ssa.BasicBlock) []condFact {
	return domFactsE(b, 0, map[*ssa.BasicBlock]bool{}, false)
}

// DomFactsX additionally sees through helper functions (helpers.go): outcomes
// of tests on a helper's result imply the branch outcomes that select the
// matching returns inside it, and code inside a private helper inherits the
// facts common to all of its call sites. Used by the "is dominated by" queries;
// the "nothing else guards this" rules use the local DomFacts.
func DomFactsX(b *ssa.BasicBlock) []condFact {
	return domFactsE(b, 0, map[*ssa.BasicBlock]bool{}, true)
}

func domFacts(b *ssa.BasicBlock, depth int, busy map[*ssa.BasicBlock]bool) []condFact {
	return domFactsE(b, depth, busy, true)
}

func domFactsE(b *ssa.BasicBlock, depth int, busy map[*ssa.BasicBlock]bool, ext bool) []condFact {
	var out []condFact
	add := func(f condFact) {
		for _, x := range out {
			if x == f {
				return
			}
		}
		out = append(out, f)
	}
	base := DomConds(b)
	for _, ce := range base {
		c, t := normCond(ce.Cond, ce.Taken)
		add(condFact{c, t})
	}
	if depth > 4 || busy[b] {
		return out
	}
	busy[b] = true
	defer delete(busy, b)
	for _, ce := range base {
		c, t := normCond(ce.Cond, ce.Taken)
		phi, ok := c.(*ssa.Phi)
		if !ok {
			continue
		}
		pb := phi.Block()
		var common []condFact
		first := true
		feasible := 0
		for i, ed := range phi.Edges {
			k, isConst := ed.(*ssa.Const)
			if isConst && k.Value != nil && k.Value.Kind() == constant.Bool && constant.BoolVal(k.Value) != t {
				continue // this predecessor sets the flag to the other value
			}
			feasible++
			pred := pb.Preds[i]
			facts := domFactsE(pred, depth+1, busy, ext)
			// the edge pred->pb itself
			if len(pred.Instrs) > 0 {
				if ifi, ok := pred.Instrs[len(pred.Instrs)-1].(*ssa.If); ok && pred.Succs[0] != pred.Succs[1] {
					cc, tt := normCond(ifi.Cond, pred.Succs[0] == pb)
					facts = append(facts, condFact{cc, tt})
				}
			}
			if !isConst {
				// the flag equals a non-constant value known to be t
				cc, tt := normCond(ed, t)
				facts = append(facts, condFact{cc, tt})
			}
			if first {
				common = facts
				first = false
			} else {
				var keep []condFact
				for _, f := range common {
					for _, g := range facts {
						if f == g {
							keep = append(keep, f)
							break
						}
					}
				}
				common = keep
			}
		}
		if feasible > 0 {
			for _, f := range common {
				add(f)
			}
		}
	}
	// a pointer/func/interface φ with nil on some edges, tested against nil: "x := nil; if c { x = v }; if x != nil {…}"
	for _, ce := range base {
		c, t := normCond(ce.Cond, ce.Taken)
		bo, ok := c.(*ssa.BinOp)
		if !ok || (bo.Op != token.NEQ && bo.Op != token.EQL) {
			continue
		}
		var phi *ssa.Phi
		if p, isP := bo.X.(*ssa.Phi); isP && isNilConst(bo.Y) {
			phi = p
		} else if p, isP := bo.Y.(*ssa.Phi); isP && isNilConst(bo.X) {
			phi = p
		}
		if phi == nil {
			continue
		}
		nonNil := (bo.Op == token.NEQ) == t
		if !nonNil {
			continue
		}
		pb := phi.Block()
		var common []condFact
		first := true
		for i, ed := range phi.Edges {
			if isNilConst(ed) {
				continue // this predecessor leaves the value nil
			}
			pred := pb.Preds[i]
			facts := domFactsE(pred, depth+1, busy, ext)
			if len(pred.Instrs) > 0 {
				if ifi, ok := pred.Instrs[len(pred.Instrs)-1].(*ssa.If); ok && pred.Succs[0] != pred.Succs[1] {
					cc, tt := normCond(ifi.Cond, pred.Succs[0] == pb)
					facts = append(facts, condFact{cc, tt})
				}
			}
			facts = append(facts, condFact{&ssa.BinOp{Op: token.NEQ, X: ed, Y: ssa.NewConst(nil, ed.Type())}, true})
			if first {
				common, first = facts, false
				continue
			}
			var keep []condFact
			for _, f := range common {
				for _, g := range facts {
					if f == g {
						keep = append(keep, f)
						break
					}
				}
			}
			common = keep
		}
		for _, f := range common {
			add(f)
		}
	}
	// helper transparency: outcomes of tests on a helper's result, and the
	// facts common to all call sites when b lies in a private helper
	if !ext {
		return out
	}
	for _, f := range out[:len(out):len(out)] {
		for _, g := range helperCondFacts(f.Cond, f.Taken, depth, busy) {
			add(g)
		}
	}
	for _, g := range callerFacts(b, depth, busy) {
		add(g)
	}
	return out
}

// DominatedByExt is DominatedBy over DomFacts.
func DominatedByExt(in ssa.Instruction, pat CondPat) bool {
	for _, f := range DomFactsX(in.Block()) {
		if pat(f.Cond, f.Taken) {
			return true
		}
	}
	return false
}

// loopBlocks returns the blocks on a CFG cycle through b (empty if none).
func loopBlocks(b *ssa.BasicBlock) map[*ssa.BasicBlock]bool {
	fwd := map[*ssa.BasicBlock]bool{}
	work := append([]*ssa.BasicBlock{}, b.Succs...)
	for len(work) > 0 {
		x := work[0]
		work = work[1:]
		if fwd[x] {
			continue
		}
		fwd[x] = true
		work = append(work, x.Succs...)
	}
	if !fwd[b] {
		return nil
	}
	bwd := map[*ssa.BasicBlock]bool{}
	work = append([]*ssa.BasicBlock{}, b.Preds...)
	for len(work) > 0 {
		x := work[0]
		work = work[1:]
		if bwd[x] {
			continue
		}
		bwd[x] = true
		work = append(work, x.Preds...)
	}
	out := map[*ssa.BasicBlock]bool{}
	for x := range fwd {
		if bwd[x] {
			out[x] = true
		}
	}
	return out
}

// retResults resolves the values returned by r, looking through the
// defer-induced spill of results into locals (*t0 = v; rundefers; return *t0).
func retResults(r *ssa.Return) []ssa.Value {
	out := make([]ssa.Value, len(r.Results))
	for i, v := range r.Results {
		out[i] = v
		u, ok := v.(*ssa.UnOp)
		if !ok || u.Op != token.MUL {
			continue
		}
		al, ok := u.X.(*ssa.Alloc)
		if !ok {
			continue
		}
		b := r.Block()
		for j := instrIndex(r) - 1; j >= 0; j-- {
			if st, ok := b.Instrs[j].(*ssa.Store); ok && st.Addr == al {
				out[i] = st.Val
				break
			}
		}
	}
	return out
}

// allReturns lists the Return instructions of fn (excluding the recover block).
func allReturns(fn *ssa.Function) []*ssa.Return {
	var out []*ssa.Return
	for _, b := range fn.Blocks {
		if b == fn.Recover {
			continue
		}
		for _, in := range b.Instrs {
			if r, ok := in.(*ssa.Return); ok {
				out = append(out, r)
			}
		}
	}
	return out
}

// typeAssertOK: v is the ok component of a comma-ok assertion to type named tname (pointer to named).
func typeAssertOK(v ssa.Value, tname string) bool {
	ex, ok := v.(*ssa.Extract)
	if !ok || ex.Index != 1 {
		return false
	}
	ta, ok := ex.Tuple.(*ssa.TypeAssert)
	if !ok {
		return false
	}
	return typeShort(ta.AssertedType) == tname
}

func typeShort(t types.Type) string {
	return types.TypeString(t, func(*types.Package) string { return "" })
}

// SameExpr matches values structurally equal to w: identical SSA value, or the
// same pure expression (loads of the same field from the same base, constants,
// arithmetic over such).
func SameExpr(w ssa.Value) VPat {
	return func(v ssa.Value) bool { return sameExpr(v, w, 0) }
}

func sameExpr(a, b ssa.Value, d int) bool {
	a, b = unconv(a), unconv(b)
	if a == b {
		return true
	}
	if d > 6 {
		return false
	}
	switch x := a.(type) {
	case *ssa.Const:
		y, ok := b.(*ssa.Const)
		if !ok {
			return false
		}
		if x.Value == nil || y.Value == nil {
			return x.Value == nil && y.Value == nil
		}
		return constant.Compare(x.Value, token.EQL, y.Value)
	case *ssa.UnOp:
		y, ok := b.(*ssa.UnOp)
		return ok && x.Op == y.Op && sameExpr(x.X, y.X, d+1)
	case *ssa.FieldAddr:
		y, ok := b.(*ssa.FieldAddr)
		return ok && x.Field == y.Field && sameExpr(x.X, y.X, d+1)
	case *ssa.Field:
		y, ok := b.(*ssa.Field)
		return ok && x.Field == y.Field && sameExpr(x.X, y.X, d+1)
	case *ssa.BinOp:
		y, ok := b.(*ssa.BinOp)
		return ok && x.Op == y.Op && sameExpr(x.X, y.X, d+1) && sameExpr(x.Y, y.Y, d+1)
	case *ssa.Call:
		// two calls of the same side-effect-free getter on the same arguments
		y, ok := b.(*ssa.Call)
		if !ok || len(x.Call.Args) != len(y.Call.Args) {
			return false
		}
		if x.Call.IsInvoke() != y.Call.IsInvoke() {
			return false
		}
		if x.Call.IsInvoke() {
			if x.Call.Method != y.Call.Method || !sameExpr(x.Call.Value, y.Call.Value, d+1) {
				return false
			}
		} else {
			sx, sy := x.Call.StaticCallee(), y.Call.StaticCallee()
			if sx == nil || sx != sy {
				if bx, ok := x.Call.Value.(*ssa.Builtin); ok {
					by, ok2 := y.Call.Value.(*ssa.Builtin)
					if !ok2 || bx.Name() != by.Name() || bx.Name() != "len" {
						return false
					}
				} else {
					return false
				}
			} else if !isPureGetter(sx) {
				return false
			}
		}
		for i := range x.Call.Args {
			if !sameExpr(x.Call.Args[i], y.Call.Args[i], d+1) {
				return false
			}
		}
		return true
	case *ssa.Alloc:
		return false
	}
	return false
}

// isPureGetter: the function has no stores, no calls and returns a constant or a field load.
func isPureGetter(fn *ssa.Function) bool {
	if fn.Blocks == nil {
		return false
	}
	pure := true
	forEachInstr(fn, func(in ssa.Instruction) {
		switch in.(type) {
		case *ssa.Store, *ssa.MapUpdate, *ssa.Send, *ssa.Go, *ssa.Defer:
			pure = false
		case ssa.CallInstruction:
			pure = false
		}
	})
	return pure
}

// phiLeaf is a non-φ value flowing into a φ web, with the block the edge leaves from.
type phiLeaf struct {
	Val  ssa.Value
	From *ssa.BasicBlock
}

// phiLeaves resolves v through φ-nodes to the concrete values that may flow
// into it (nil constants are dropped).
func phiLeaves(v ssa.Value) []phiLeaf {
	var out []phiLeaf
	seen := map[*ssa.Phi]bool{}
	var walk func(v ssa.Value, from *ssa.BasicBlock)
	walk = func(v ssa.Value, from *ssa.BasicBlock) {
		if phi, ok := v.(*ssa.Phi); ok {
			if seen[phi] {
				return
			}
			seen[phi] = true
			for i, e := range phi.Edges {
				walk(e, phi.Block().Preds[i])
			}
			return
		}
		if c, ok := v.(*ssa.Const); ok && c.Value == nil {
			return
		}
		out = append(out, phiLeaf{v, from})
	}
	walk(v, nil)
	return out
}

// blockFacts: DomFacts of b plus nothing else (helper for edge origins).
func factsAt(b *ssa.BasicBlock, pat CondPat) bool {
	for _, f := range DomFactsX(b) {
		if pat(f.Cond, f.Taken) {
			return true
		}
	}
	return false
}
