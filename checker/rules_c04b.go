package main

import (
	"fmt"
	"go/token"
	"sort"
	"strings"

	"golang.org/x/tools/go/ssa"
)

// boolSources: the field names a boolean value is computed from (through φ,
// &&/||, !, ==), "const" for constants and "other:<what>" for anything else.
func boolSources(p *Prog, v ssa.Value, d int, out map[string]bool) {
	if d > 8 {
		out["other:deep"] = true
		return
	}
	switch x := v.(type) {
	case *ssa.Const:
		out["const"] = true
	case *ssa.Phi:
		for _, e := range x.Edges {
			boolSources(p, e, d+1, out)
		}
	case *ssa.BinOp:
		boolSources(p, x.X, d+1, out)
		boolSources(p, x.Y, d+1, out)
	case *ssa.UnOp:
		if f, _ := loadedField(x); f != nil {
			out[f.Name()] = true
			return
		}
		if x.Op == token.NOT {
			boolSources(p, x.X, d+1, out)
			return
		}
		out["other:"+shortValue(p, v)] = true
	case *ssa.Field:
		if f := fieldOf(x.X.Type(), x.Field); f != nil {
			out[f.Name()] = true
			return
		}
		out["other:"+shortValue(p, v)] = true
	default:
		out["other:"+shortValue(p, v)] = true
	}
}

func init() {
	register(&Rule{ID: "C04.R10", Props: []string{"C04", "C17"}, Engine: "E2-dataflow",
		Title:   "capability plumbing is field-consistent: the three capability bits read from the peer's (or a token's) Supported-Extensions list are set from exactly their own chunk type (FORWARD-TSN / I-DATA / I-FORWARD-TSN) and every later copy of a bit (parsed → accumulated → peer* fields) reads the same-named bit only, so one capability can never be taken for another",
		MinInst: 12,
		Run: func(c *RuleCtx) {
			family := map[string]string{
				"forwardTSN": "fwd", "peerForwardTSN": "fwd",
				"interleaving": "ilv", "peerInterleaving": "ilv",
				"iForwardTSN": "ifwd", "peerIForwardTSN": "ifwd",
			}
			wantConst := map[string]string{"forwardTSN": "ctForwardTSN", "interleaving": "ctIData", "iForwardTSN": "ctIForwardTSN"}
			ks := keyer{}
			for _, owner := range []struct{ typ, field string }{
				{"supportedExtensions", "forwardTSN"}, {"supportedExtensions", "interleaving"}, {"supportedExtensions", "iForwardTSN"},
				{"Association", "peerForwardTSN"}, {"Association", "peerInterleaving"}, {"Association", "peerIForwardTSN"},
			} {
				f := c.field(owner.typ, owner.field)
				for _, a := range c.P.Writes(f) {
					if a.Kind != AccWrite {
						continue
					}
					src := map[string]bool{}
					boolSources(c.P, a.Val, 0, src)
					var bad []string
					for s := range src {
						if s == "const" {
							continue
						}
						if family[s] != family[owner.field] {
							bad = append(bad, s)
						}
					}
					sort.Strings(bad)
					key := ks.key("bit-source:" + owner.typ + "." + owner.field + "@" + c.P.FuncName(a.Fn))
					c.Check(len(bad) == 0, key, c.Pos(a.Instr), "written from its own capability bit (or a constant) only", "capability bit "+owner.field+" is computed from "+strings.Join(bad, ", "))
					// a constant true on the parsed struct must sit under the matching chunk-type test
					if owner.typ == "supportedExtensions" && IsConstBool(true)(a.Val) {
						k := c.P.Const(wantConst[owner.field])
						var kv int64
						fmt.Sscan(k.Val().String(), &kv)
						ok := DominatedByExt(a.Instr, CmpCond(token.EQL, AnyV, IsConstInt(kv)))
						if !ok {
							// a guarded copy: if src.<same bit> { dst.<bit> = true }
							for _, fam := range []struct{ typ, field string }{{"supportedExtensions", owner.field}, {"Association", "peer" + strings.ToUpper(owner.field[:1]) + owner.field[1:]}} {
								if ff := c.P.Field(fam.typ, fam.field); ff != nil && DominatedByExt(a.Instr, BoolCond(IsLoadOf(ff), true)) {
									ok = true
								}
							}
						}
						c.Check(ok, ks.key("bit-from-chunk-type:"+owner.field), c.Pos(a.Instr), "set under chunkType == "+wantConst[owner.field], owner.field+" is set for a chunk type other than "+wantConst[owner.field]+" ("+c.describeConds(a.Instr)+")")
					}
				}
			}
		}})
}
