package main

import (
	"fmt"
	"go/constant"
	"go/token"
	"go/types"
	"strings"

	"golang.org/x/tools/go/ssa"
)

// timerFields maps Association timer fields to the retry policy the properties
// require (C02.R1 unlimited; C04.R4 / C19.R4 bounded).
var timerFields = map[string]string{
	"t1Init": "bounded", "t1Cookie": "bounded",
	"t2Shutdown": "unlimited", "t3RTX": "unlimited", "tReconfig": "unlimited",
}

func init() {
	register(&Rule{ID: "C02.R1", Props: []string{"C02", "C19", "C04", "C08", "C14"}, Engine: "E1",
		Title:   "retry budgets: T2/T3/reconfig timers are built with no retry limit, T1 timers with a positive one; the timer reports failure only under a non-zero limit that was exceeded",
		MinInst: 7,
		Run: func(c *RuleCtx) {
			newT := c.Fn("newRTXTimer")
			seen := map[string]bool{}
			for name, pol := range timerFields {
				f := c.field("Association", name)
				for _, a := range c.P.Writes(f) {
					call, ok := isCallTo(unconv(a.Val), newT)
					if !ok {
						c.Fail("timer-ctor:"+name, c.Pos(a.Instr), "timer field assigned from something other than newRTXTimer")
						continue
					}
					seen[name] = true
					n, isConst := constInt(call.Call.Args[2])
					switch pol {
					case "unlimited":
						c.Check(isConst && n == 0, "timer-budget:"+name, c.Pos(a.Instr), "maxRetrans = 0 (retransmit for as long as the association lives)",
							fmt.Sprintf("maxRetrans is not the constant 0 (const=%v value=%d): data/shutdown/reconfig retransmission would give up", isConst, n))
					case "bounded":
						c.Check(isConst && n > 0 && n <= 64, "timer-budget:"+name, c.Pos(a.Instr), fmt.Sprintf("maxRetrans = %d (bounded handshake retries)", n),
							"handshake timer has no positive constant retry bound")
					}
					// the id passed equals the timer's role
					wantID := map[string]string{"t1Init": "timerT1Init", "t1Cookie": "timerT1Cookie", "t2Shutdown": "timerT2Shutdown", "t3RTX": "timerT3RTX", "tReconfig": "timerReconfig"}[name]
					idc := c.P.Const(wantID)
					id, isC := constInt(call.Call.Args[0])
					c.Check(idc != nil && isC && fmt.Sprint(id) == idc.Val().String(), "timer-id:"+name, c.Pos(a.Instr), "constructed with id "+wantID, "constructed with a different timer id than "+wantID)
				}
			}
			for name := range timerFields {
				if !seen[name] {
					c.Fail("timer-ctor:"+name, "", "no newRTXTimer assignment found")
				}
			}
			// rtxTimer.timeout: failure only if maxRetrans != 0 and nRtos > maxRetrans
			to := c.Fn("rtxTimer.timeout")
			maxR := c.field("rtxTimer", "maxRetrans")
			nR := c.field("rtxTimer", "nRtos")
			nFail, nTimeout := 0, 0
			forEachInstr(to, func(in ssa.Instruction) {
				// the callbacks may be deferred or called explicitly after the unlock
				d, ok := in.(ssa.CallInstruction)
				if !ok || !d.Common().IsInvoke() {
					return
				}
				switch d.Common().Method.Name() {
				case "onRetransmissionFailure":
					nFail++
					c.Dom("failure-needs-limit", d, CmpCond(token.NEQ, IsLoadOf(maxR), IsConstInt(0)), "maxRetrans != 0")
					c.Dom("failure-needs-exceeded", d, CmpCond(token.GTR, IsLoadOf(nR), IsLoadOf(maxR)), "nRtos > maxRetrans")
				case "onRetransmissionTimeout":
					nTimeout++
					// re-armed before reporting
					rearmed := false
					forEachInstr(to, func(x ssa.Instruction) {
						if ci, ok := x.(ssa.CallInstruction); ok {
							if sc := ci.Common().StaticCallee(); sc != nil && sc.Name() == "Reset" && (x.Block() == d.Block() || InstrDominates(x, d)) {
								rearmed = true
							}
						}
					})
					if !rearmed {
						// flag form: the report is made after the unlock under a boolean that is set
						// to true only where the timer was re-armed
						var resets []ssa.Instruction
						forEachInstr(to, func(x ssa.Instruction) {
							if ci, ok := x.(ssa.CallInstruction); ok {
								if sc := ci.Common().StaticCallee(); sc != nil && sc.Name() == "Reset" {
									resets = append(resets, x)
								}
							}
						})
						for _, f := range DomFacts(d.Block()) {
							if _, isPhi := f.Cond.(*ssa.Phi); !isPhi || !f.Taken {
								continue
							}
							okFlag, nTrue := true, 0
							for _, lf := range phiLeaves(f.Cond) {
								if !IsConstBool(true)(lf.Val) {
									continue
								}
								nTrue++
								fromReset := false
								for _, r := range resets {
									if lf.From != nil && (r.Block() == lf.From || r.Block().Dominates(lf.From)) {
										fromReset = true
									}
								}
								if !fromReset {
									okFlag = false
								}
							}
							if okFlag && nTrue > 0 {
								rearmed = true
							}
						}
					}
					c.Check(rearmed, "timeout-rearms", c.Pos(d), "timer.Reset is called on the expiry path that reports a timeout", "expiry path no longer re-arms the timer")
				}
			})
			c.Check(nFail == 1 && nTimeout == 1, "timeout-callbacks", c.P.Pos(to.Pos()), "one timeout and one failure callback site", fmt.Sprintf("callbacks: timeout=%d failure=%d", nTimeout, nFail))
		}})

	register(&Rule{ID: "C02.R2", Props: []string{"C02", "C01"}, Engine: "E3",
		Title:   "T3 expiry marks every outstanding chunk for retransmission and wakes the writer",
		MinInst: 5,
		Run: func(c *RuleCtx) {
			ort := c.Fn("Association.onRetransmissionTimeout")
			markAll := c.Fn("payloadQueue.markAllToRetrasmit")
			awake := c.Fn("Association.awakeWriteLoop")
			t3 := c.P.Const("timerT3RTX")
			if t3 == nil {
				panic(unresolved{"const timerT3RTX"})
			}
			var t3v int64
			fmt.Sscan(t3.Val().String(), &t3v)
			found := false
			forEachInstr(ort, func(in ssa.Instruction) {
				ifi, ok := in.(*ssa.If)
				if !ok {
					return
				}
				cv, t := normCond(ifi.Cond, true)
				if !CmpCond(token.EQL, IsParam(ort, 1), IsConstInt(t3v))(cv, t) {
					return
				}
				found = true
				succ := ifi.Block().Succs[0]
				ok1, bad := MustPassFromBlock(succ, c.P.CallTargetPred(0, markAll), PathOpts{})
				c.Check(ok1, "t3-must-markAll", c.Pos(ifi), "every path of the T3 branch calls inflightQueue.markAllToRetrasmit()",
					"a path of the T3 branch returns without markAllToRetrasmit() at "+c.P.InstrPos(bad))
				ok2, bad2 := MustPassFromBlock(succ, c.P.CallTargetPred(2, awake), PathOpts{})
				c.Check(ok2, "t3-must-wake", c.Pos(ifi), "every path of the T3 branch wakes the writer",
					"a path of the T3 branch returns without awakeWriteLoop() at "+c.P.InstrPos(bad2))
			})
			c.Check(found, "t3-branch", c.P.Pos(ort.Pos()), "id == timerT3RTX branch found", "no branch on id == timerT3RTX")
			// markAllToRetrasmit: retransmit=true for every chunk except acked/abandoned
			rt := c.field("chunkPayloadData", "retransmit")
			acked := c.field("chunkPayloadData", "acked")
			ab := c.Fn("chunkPayloadData.abandoned")
			st := c.storesIn(markAll, rt)
			c.Check(len(st) == 1, "markAll-store", c.P.Pos(markAll.Pos()), "one store retransmit=true", fmt.Sprintf("%d stores to retransmit", len(st)))
			for _, a := range st {
				c.Check(IsConstBool(true)(a.Val), "markAll-true", c.Pos(a.Instr), "stores true", "does not store true")
				// every dominating condition is one of: loop bound, !acked, !abandoned()
				okAll := true
				var extra []string
				for _, f := range DomFacts(a.Instr.Block()) {
					switch {
					case IsLoadOf(acked)(f.Cond) && !f.Taken:
					case IsCallOf(ab)(f.Cond) && !f.Taken:
					case isGiveUpCall(c, f.Cond) && !f.Taken:
					case isLoopBound(f.Cond):
					default:
						okAll = false
						extra = append(extra, fmt.Sprintf("%s=%v", shortValue(c.P, f.Cond), f.Taken))
					}
				}
				c.Check(okAll, "markAll-only-skips-acked-abandoned", c.Pos(a.Instr), "the only chunks skipped are acked or abandoned ones",
					"additional guard(s) keep outstanding chunks from being marked: "+strings.Join(extra, ", "))
				c.Check(len(loopBlocks(a.Instr.Block())) > 0, "markAll-loop", c.Pos(a.Instr), "store is inside the loop over all in-flight chunks", "store not in a loop")
			}
		}})

	register(&Rule{ID: "C02.R3", Props: []string{"C02", "C07", "C08", "C14", "C19"}, Engine: "E3+E5",
		Title:   "no lost wake-up: every producer of writer-consumed state (will* flags, immediate ack, retransmit marks, control/pending queue pushes) is followed on every path by awakeWriteLoop, locally or in every caller",
		MinInst: 24,
		Run:     runWakeRule})

	register(&Rule{ID: "C02.R4", Props: []string{"C02", "C10"}, Engine: "E3",
		Title:   "zero-window probe exists: one chunk may be sent when nothing is in flight, and the first retransmission bypasses the window test",
		MinInst: 4,
		Run: func(c *RuleCtx) {
			pop := c.Fn("Association.popPendingDataChunksToSend")
			move := c.Fn("Association.movePendingDataChunkToInflightQueue")
			rwnd := c.Fn("Association.RWND")
			cwnd := c.Fn("Association.CWND")
			size := c.Fn("payloadQueue.size")
			nProbe := 0
			for _, mc := range callsInDeep(pop, move, 1) {
				facts := DomFactsX(mc.Block())
				underRwnd, underCwnd := false, false
				for _, f := range facts {
					if b, ok := f.Cond.(*ssa.BinOp); ok {
						if Derives(IsCallOf(rwnd))(b.X) || Derives(IsCallOf(rwnd))(b.Y) {
							underRwnd = true
						}
						if Derives(IsCallOf(cwnd))(b.X) || Derives(IsCallOf(cwnd))(b.Y) {
							underCwnd = true
						}
					}
				}
				if underRwnd || underCwnd {
					continue
				}
				nProbe++
				c.Dom("probe-needs-nothing-inflight", mc, CmpCond(token.EQL, IsCallOf(size), IsConstInt(0)), "inflightQueue.size()==0")
				c.Dom("probe-needs-nothing-sent", mc, func(v ssa.Value, t bool) bool {
					return CmpCond(token.EQL, func(x ssa.Value) bool {
						call, ok := unconv(x).(*ssa.Call)
						if !ok {
							return false
						}
						b, ok := call.Call.Value.(*ssa.Builtin)
						return ok && b.Name() == "len"
					}, IsConstInt(0))(v, t)
				}, "len(chunks)==0")
			}
			c.Check(nProbe == 1, "probe-site", c.P.Pos(pop.Pos()), "exactly one window-probe admission not guarded by cwnd/rwnd", fmt.Sprintf("%d unguarded admission sites", nProbe))
			// T3 path: decision table of the selection in getDataPacketsToRetransmit by partial evaluation.
			// Inputs: position of the chunk (first outstanding / later), "peer window smaller than the chunk",
			// "chunk exceeds min(cwnd, rwnd)". A flagged chunk is selected (retransmit cleared) exactly when it fits
			// the window, or it is the first outstanding one and the peer window is too small for it (window probe).
			get := c.Fn("Association.getDataPacketsToRetransmit")
			rt := c.field("chunkPayloadData", "retransmit")
			min32 := c.Fn("min32")
			iqGet := c.Fn("payloadQueue.get")
			tlr := c.Fn("Association.tlrAllowSendLocked")
			mtu := c.Fn("Association.MTU")
			isCmp := func(v ssa.Value) (*ssa.BinOp, bool) {
				b, ok := v.(*ssa.BinOp)
				if !ok {
					return nil, false
				}
				switch b.Op {
				case token.LSS, token.LEQ, token.GTR, token.GEQ:
					return b, true
				}
				return nil, false
			}
			// truth value of "left OP right" given the truth of "small < big"
			orient := func(b *ssa.BinOp, smallIsX bool, smallLess bool) bool {
				// smallLess: small < big holds (strict); otherwise small >= big
				var xLessY bool
				if smallIsX {
					xLessY = smallLess
				} else {
					xLessY = !smallLess
				}
				switch b.Op {
				case token.LSS, token.LEQ:
					return xLessY
				default:
					return !xLessY
				}
			}
			for _, first := range []bool{true, false} {
				for _, tooSmall := range []bool{true, false} {
					for _, exceeds := range []bool{true, false} {
						key := fmt.Sprintf("t3-select:first=%v,peerWindowTooSmall=%v,exceedsWindow=%v", first, tooSmall, exceeds)
						outs, und := c.P.PEval(get, PEConfig{
							Fields: map[*types.Var]constant.Value{rt: constant.MakeBool(true)},
							Opaque: map[*ssa.Function]bool{tlr: true, c.Fn("Association.checkPartialReliabilityStatus"): true, c.Fn("Association.rackRemove"): true, c.Fn("Association.rackInsert"): true, c.Fn("Association.bundleDataChunksIntoPackets"): true},
							StopAfter: func(in ssa.Instruction) string {
								if st, ok := in.(*ssa.Store); ok && fieldOfAddr(st.Addr) == rt && IsConstBool(false)(st.Val) {
									return "selected"
								}
								return ""
							},
							StopAt: func(in ssa.Instruction) string {
								// second visit of the loop would be the next chunk: stop when the loop counter is incremented
								if b, ok := in.(*ssa.BinOp); ok && b.Op == token.ADD && IsConstInt(1)(b.Y) {
									if phi, ok := b.X.(*ssa.Phi); ok && isUnitCounter(phi) {
										return "skipped"
									}
								}
								return ""
							},
							BindVal: func(v ssa.Value) (constant.Value, bool) {
								switch x := v.(type) {
								case *ssa.Phi:
									// "first" is the natural first iteration; for "later" every loop-carried variable that
									// distinguishes the first iteration (i := 0; i++ / isFirst := true; … = false) takes a later value
									if !first {
										if v, ok := laterIterationValue(x); ok {
											return v, true
										}
									}
								case *ssa.Extract:
									if x.Index == 1 && IsCallOf(iqGet)(x.Tuple) {
										return constant.MakeBool(true), true
									}
								case *ssa.Call:
									if x.Call.StaticCallee() == tlr {
										return constant.MakeBool(true), true
									}
								case *ssa.BinOp:
									b, ok := isCmp(x)
									if !ok {
										return nil, false
									}
									dX, dY := Derives(IsCallOf(min32))(b.X), Derives(IsCallOf(min32))(b.Y)
									if dX || dY {
										// bytes+len vs awnd: "exceeds" means bytes+len > awnd, i.e. awnd < bytes+len
										return constant.MakeBool(orient(b, dX, exceeds)), true
									}
									mX, mY := Derives(IsCallOf(mtu))(b.X), Derives(IsCallOf(mtu))(b.Y)
									if mX || mY {
										// the chunk fits the MTU: size <= mtu, i.e. NOT mtu < size
										return constant.MakeBool(orient(b, mX, false)), true
									}
									rX, rY := Derives(IsCallOf(rwnd))(b.X), Derives(IsCallOf(rwnd))(b.Y)
									if rX || rY {
										return constant.MakeBool(orient(b, rX, tooSmall)), true
									}
								}
								return nil, false
							}})
						if und != "" || len(outs) == 0 {
							c.Fail(key, c.P.Pos(get.Pos()), "UNDECIDED: "+und)
							continue
						}
						want := !exceeds || (first && tooSmall)
						why := ""
						for _, o := range outs {
							if want && o.Label != "selected" {
								why = "a flagged chunk that may be sent is not selected (path ends in '" + o.Label + "')"
							}
							if !want && o.Label == "selected" {
								why = "a chunk beyond the window is selected although it is not a first-chunk window probe"
							}
						}
						c.Check(why == "", key, c.P.Pos(get.Pos()), fmt.Sprintf("selected=%v on all %d path(s)", want, len(outs)), why)
					}
				}
			}
		}})

	register(&Rule{ID: "C02.R5", Props: []string{"C02"}, Engine: "E3",
		Title:   "SACK processing restarts T3 while data is outstanding and wakes the writer while data is pending",
		MinInst: 3,
		Run: func(c *RuleCtx) {
			start := c.Fn("rtxTimer.start")
			awake := c.Fn("Association.awakeWriteLoop")
			isT3Start := func(in ssa.Instruction) bool {
				ci, ok := in.(ssa.CallInstruction)
				if !ok || ci.Common().StaticCallee() != start {
					return false
				}
				f, _ := loadedField(ci.Common().Args[0])
				return f != nil && f.Name() == "t3RTX"
			}
			// ifOn: the branch on "sizeFn() compared with 0" and the successor index on which the size is positive
			ifOn := func(fn *ssa.Function, sizeFn *ssa.Function) (*ssa.If, int) {
				var out *ssa.If
				pos := 0
				forEachInstr(fn, func(in ssa.Instruction) {
					ifi, ok := in.(*ssa.If)
					if !ok || out != nil {
						return
					}
					b, ok := ifi.Cond.(*ssa.BinOp)
					if !ok {
						return
					}
					op := b.Op
					switch {
					case IsCallOf(sizeFn)(b.X) && IsConstInt(0)(b.Y):
					case IsCallOf(sizeFn)(b.Y) && IsConstInt(0)(b.X):
						op = swapOp(op)
					default:
						return
					}
					switch op { // size op 0
					case token.GTR, token.NEQ:
						out, pos = ifi, 0
					case token.EQL, token.LEQ:
						out, pos = ifi, 1
					}
				})
				return out, pos
			}
			adv := c.Fn("Association.onCumulativeTSNAckPointAdvanced")
			if ifi, pos := ifOn(adv, c.Fn("payloadQueue.size")); ifi != nil {
				ok, bad := MustPassFromBlock(ifi.Block().Succs[pos], isT3Start, PathOpts{})
				c.Check(ok, "advance-restarts-t3", c.Pos(ifi), "inflight > 0 after a cumulative advance ⇒ t3RTX.start", "inflight>0 path without t3RTX.start: "+c.P.InstrPos(bad))
			} else {
				c.Fail("advance-restarts-t3", "", "inflightQueue.size()==0 test not found")
			}
			pp := c.Fn("Association.postprocessSack")
			if ifi, pos := ifOn(pp, c.Fn("payloadQueue.size")); ifi != nil {
				ok, bad := MustPassFromBlock(ifi.Block().Succs[pos], isT3Start, PathOpts{})
				c.Check(ok, "sack-starts-t3", c.Pos(ifi), "inflight > 0 after any SACK ⇒ t3RTX.start", "inflight>0 path without t3RTX.start: "+c.P.InstrPos(bad))
			} else {
				c.Fail("sack-starts-t3", "", "inflightQueue.size()>0 test not found in postprocessSack")
			}
			if ifi, pos := ifOn(pp, c.Fn("pendingQueue.size")); ifi != nil {
				ok, bad := MustPassFromBlock(ifi.Block().Succs[pos], c.P.CallTargetPred(1, awake), PathOpts{})
				c.Check(ok, "sack-wakes-for-pending", c.Pos(ifi), "pending > 0 and nothing in flight after a SACK ⇒ writer woken", "pending>0 path without wake: "+c.P.InstrPos(bad))
			} else {
				c.Fail("sack-wakes-for-pending", "", "pendingQueue.size()>0 test not found in postprocessSack")
			}
			// handleSack must-calls postprocessSack once the SACK was processed
			hs := c.Fn("Association.handleSack")
			for _, fc := range callsIn(hs, c.Fn("Association.finishAcknowledgement")) {
				ok, bad := MustPass(fc, c.P.CallTargetPred(0, pp), func(in ssa.Instruction) bool {
					r, isRet := in.(*ssa.Return)
					return isRet && len(r.Results) == 1 && !isNilConst(r.Results[0])
				})
				c.Check(ok, "handleSack-postprocess", c.Pos(fc), "after acknowledgement processing handleSack always runs postprocessSack (error returns excepted)", "a success path skips postprocessSack: "+c.P.InstrPos(bad))
			}
		}})

	register(&Rule{ID: "C02.R6", Props: []string{"C02", "C11"}, Engine: "E5b",
		Title:   "a gap-filling chunk is accepted when the receive window is zero (decision table of acceptPayloadData by partial evaluation over credit ∈ {0,>0} × highest-TSN known ∈ {no,yes} × serial order of chunk.tsn vs highest TSN ∈ {before,equal,after}): the chunk is passed to its stream exactly when credit > 0, or the highest TSN is known and chunk.tsn is serially before it",
		MinInst: 12,
		Run: func(c *RuleCtx) {
			acc := c.Fn("Association.acceptPayloadData")
			pushTo := c.Fn("Stream.handleData") // a delivery = the call that hands the chunk to its stream
			credit := c.Fn("Association.getMyReceiverWindowCredit")
			tsn := c.field("chunkPayloadData", "tsn")
			last := c.Fn("receivePayloadQueue.getLastTSNReceived")
			isLast := func(v ssa.Value) bool {
				ex, ok := unconv(v).(*ssa.Extract)
				return ok && ex.Index == 0 && IsCallOf(last)(ex.Tuple)
			}
			// the chunk's tsn may reach the comparison through a helper parameter
			isTSN := func(v ssa.Value) bool { return IsLoadOf(tsn)(v) }
			snaRel := map[string]func(r int) bool{ // r: -1 a before b, 0 equal, +1 a after b
				"sna32LT": func(r int) bool { return r < 0 }, "sna32LTE": func(r int) bool { return r <= 0 },
				"sna32GT": func(r int) bool { return r > 0 }, "sna32GTE": func(r int) bool { return r >= 0 },
				"sna32EQ": func(r int) bool { return r == 0 },
			}
			opaque := map[*ssa.Function]bool{pushTo: true, c.Fn("Association.getOrCreateStream"): true,
				c.Fn("receivePayloadQueue.push"): true, c.Fn("Association.abortProtocolViolation"): true}
			for _, cr := range []int64{0, 1500} {
				for _, known := range []bool{false, true} {
					for _, rel := range []int{-1, 0, 1} {
						key := fmt.Sprintf("accept:credit=%d,highestKnown=%v,tsn-vs-highest=%d", cr, known, rel)
						outs, und := c.P.PEval(acc, PEConfig{Opaque: opaque, BindVal: func(v ssa.Value) (constant.Value, bool) {
							switch x := v.(type) {
							case *ssa.Call:
								sc := x.Call.StaticCallee()
								if sc == credit {
									return constant.MakeInt64(cr), true
								}
								if sc == c.Fn("Association.getOrCreateStream") {
									return peNonNil, true
								}
								if sc != nil {
									if f, ok := snaRel[sc.Name()]; ok && len(x.Call.Args) == 2 {
										a0, a1 := x.Call.Args[0], x.Call.Args[1]
										switch {
										case isTSN(a0) && isLast(a1):
											return constant.MakeBool(f(rel)), true
										case isLast(a0) && isTSN(a1):
											return constant.MakeBool(f(-rel)), true
										}
									}
								}
							case *ssa.Extract:
								if x.Index == 1 && IsCallOf(last)(x.Tuple) {
									return constant.MakeBool(known), true
								}
							}
							return nil, false
						}})
						if und != "" || len(outs) == 0 {
							c.Fail(key, c.P.Pos(acc.Pos()), "UNDECIDED: "+und)
							continue
						}
						want := cr > 0 || (known && rel < 0)
						why := ""
						for _, o := range outs {
							n := len(o.Called("Stream.handleData"))
							if want && n != 1 {
								why = fmt.Sprintf("a path does not pass the chunk to its stream (%d pushes)", n)
							}
							if !want && n != 0 {
								why = "a path passes the chunk to its stream although the window is closed and the chunk fills no gap"
							}
						}
						c.Check(why == "", key, c.P.Pos(acc.Pos()), fmt.Sprintf("delivered=%v on all %d path(s)", want, len(outs)), why+" — with the window closed the missing chunk must still get through or the receiver deadlocks")
					}
				}
			}
		}})
}

func isNilConst(v ssa.Value) bool {
	c, ok := v.(*ssa.Const)
	return ok && c.Value == nil
}

// isLoopBound: cond is "i < something" with i a φ (loop counter).
func isLoopBound(v ssa.Value) bool {
	b, ok := v.(*ssa.BinOp)
	if !ok || b.Op != token.LSS {
		return false
	}
	if _, isPhi := b.X.(*ssa.Phi); isPhi {
		return true
	}
	// range-over-int entry guard: 0 < n
	if k, isK := constInt(b.X); isK && k == 0 {
		return true
	}
	// range-over-slice form: φ+1 < len
	if add, ok := b.X.(*ssa.BinOp); ok && add.Op == token.ADD {
		if _, isPhi := add.X.(*ssa.Phi); isPhi {
			if _, isK := constInt(add.Y); isK {
				return true
			}
		}
	}
	return false
}

// reachAvoiding: CFG path from a to b that does not enter block avoid.
func reachAvoiding(a, b, avoid *ssa.BasicBlock) bool {
	if a == avoid {
		return false
	}
	seen := map[*ssa.BasicBlock]bool{a: true}
	work := []*ssa.BasicBlock{a}
	for len(work) > 0 {
		x := work[0]
		work = work[1:]
		if x == b {
			return true
		}
		for _, s := range x.Succs {
			if s == avoid || seen[s] {
				continue
			}
			seen[s] = true
			work = append(work, s)
		}
	}
	return false
}

// ---------------------------------------------------------------- wake rule

type producerSite struct {
	Instr ssa.Instruction
	Fn    *ssa.Function
	What  string
}

func (c *RuleCtx) producerSites() []producerSite {
	var out []producerSite
	flagFields := []string{"willSendShutdown", "willSendShutdownAck", "willSendShutdownComplete", "willSendAbort", "willRetransmitReconfig", "willSendForwardTSN"}
	for _, fname := range flagFields {
		f := c.field("Association", fname)
		for _, a := range c.P.Writes(f) {
			if a.Kind == AccWrite && IsConstBool(true)(a.Val) {
				out = append(out, producerSite{a.Instr, a.Fn, fname + "=true"})
			}
		}
	}
	imm := c.P.Const("ackStateImmediate")
	if imm == nil {
		panic(unresolved{"const ackStateImmediate"})
	}
	var immV int64
	fmt.Sscan(imm.Val().String(), &immV)
	for _, a := range c.P.Writes(c.field("Association", "ackState")) {
		if a.Kind == AccWrite && IsConstInt(immV)(a.Val) {
			out = append(out, producerSite{a.Instr, a.Fn, "ackState=Immediate"})
		}
	}
	for _, a := range c.P.Writes(c.field("chunkPayloadData", "retransmit")) {
		if a.Kind == AccWrite && IsConstBool(true)(a.Val) {
			out = append(out, producerSite{a.Instr, a.Fn, "retransmit=true"})
		}
	}
	for _, n := range []string{"controlQueue.push", "controlQueue.pushAll", "pendingQueue.push"} {
		for _, cs := range c.P.CallSitesOf(c.Fn(n)) {
			if cs.Instr.Common().StaticCallee() != c.Fn(n) {
				continue // interface dispatch resolved by CHA only
			}
			out = append(out, producerSite{cs.Instr, cs.Fn, n})
		}
	}
	return out
}

func runWakeRule(c *RuleCtx) {
	awake := c.Fn("Association.awakeWriteLoop")
	wakeT := c.P.CallTargetPred(3, awake)
	writerGate := map[*ssa.Function]bool{c.Fn("Association.gatherOutbound"): true}
	reach := c.P.ReachableAvoiding(c.P.Roots(), writerGate)
	inWriterCtx := func(fn *ssa.Function) bool {
		if writerGate[fn] {
			return true
		}
		_, ok := reach[fn]
		return !ok
	}
	// teardown: paths that leave through close() need no wake
	closeFn := c.Fn("Association.close")
	stop := func(in ssa.Instruction) bool {
		ci, ok := in.(ssa.CallInstruction)
		return ok && ci.Common().StaticCallee() == closeFn
	}
	ks := keyer{}

	// allTrueAfter: every Return reachable from in returns constant true in result idx
	returnsTrueAfter := func(in ssa.Instruction) (int, bool) {
		fn := in.Parent()
		res := fn.Signature.Results()
		idx := -1
		for i := 0; i < res.Len(); i++ {
			if b, ok := res.At(i).Type().Underlying().(*types.Basic); ok && b.Kind() == types.Bool {
				idx = i
			}
		}
		if idx < 0 {
			return -1, false
		}
		all := true
		forEachInstr(fn, func(x ssa.Instruction) {
			r, ok := x.(*ssa.Return)
			if !ok || !CanReach(in, r) {
				return
			}
			if !IsConstBool(true)(r.Results[idx]) {
				all = false
			}
		})
		return idx, all
	}

	var check func(site ssa.Instruction, facts map[ssa.Value]bool, depth int) (bool, string)
	check = func(site ssa.Instruction, facts map[ssa.Value]bool, depth int) (bool, string) {
		fn := site.Parent()
		ok, bad := MustPassOpt(site.Block(), instrIndex(site)+1, site, wakeT, PathOpts{Stop: stop, Facts: facts})
		if ok {
			return true, "woken in " + c.P.FuncName(fn)
		}
		if depth >= 3 {
			return false, "no wake within 3 call levels; first exit without wake: " + c.P.InstrPos(bad)
		}
		callers := c.P.CallSitesOf(fn)
		if len(callers) == 0 {
			return false, fmt.Sprintf("%s can return without awakeWriteLoop (exit at %s) and has no callers that could wake", c.P.FuncName(fn), c.P.InstrPos(bad))
		}
		idx, retTrue := returnsTrueAfter(site)
		var via []string
		for _, cs := range callers {
			if inWriterCtx(cs.Fn) {
				continue
			}
			var f map[ssa.Value]bool
			if retTrue {
				if v, isVal := cs.Instr.(ssa.Value); isVal {
					f = map[ssa.Value]bool{}
					if fn.Signature.Results().Len() == 1 {
						f[v] = true
					} else {
						// multi-result: find the Extract of idx
						if refs := v.Referrers(); refs != nil {
							for _, r := range *refs {
								if ex, ok := r.(*ssa.Extract); ok && ex.Index == idx {
									f[ex] = true
								}
							}
						}
					}
				}
			}
			ok, why := check(cs.Instr, f, depth+1)
			if !ok {
				return false, fmt.Sprintf("caller %s does not wake after calling %s: %s", c.P.FuncName(cs.Fn), c.P.FuncName(fn), why)
			}
			via = append(via, c.P.FuncName(cs.Fn))
		}
		return true, "woken by every non-writer caller: " + strings.Join(via, ", ")
	}

	hd := c.Fn("Association.handleData")
	for _, s := range c.producerSites() {
		key := ks.key("wake:" + s.What + "@" + c.P.FuncName(s.Fn))
		if inWriterCtx(s.Fn) {
			c.Ok(key, c.Pos(s.Instr), "producer runs in the writer's own context (reachable only from gatherOutbound)")
			continue
		}
		if s.Fn == hd {
			c.wakeViaAckTrigger(key, s)
			continue
		}
		ok, why := check(s.Instr, nil, 0)
		c.Check(ok, key, c.Pos(s.Instr), why, "LOST WAKE-UP: "+why)
	}
	// the immediate-ack trigger chain used by handleData/handleForwardTSN
	c.ackTriggerChain()
}

// wakeViaAckTrigger: in handleData the SHUTDOWN re-arm is raised only in
// state shutdownSent; specialised on that state every path from the store must
// reach abortProtocolViolation or handlePeerLastTSNAndAcknowledgement(true).
func (c *RuleCtx) wakeViaAckTrigger(key string, s producerSite) {
	e, err := c.P.States()
	if err != nil {
		panic(unresolved{err.Error()})
	}
	hd := s.Fn
	// the store must be feasible only in shutdownSent
	okOnly := true
	var where []string
	for i, n := range e.names {
		run := e.Run(hd, 1<<uint(i))
		if _, r := run.Reach[s.Instr]; r {
			where = append(where, n)
			if n != "shutdownSent" {
				okOnly = false
			}
		}
	}
	if !okOnly || len(where) == 0 {
		c.Fail(key, c.Pos(s.Instr), "producer in handleData reachable in states "+strings.Join(where, ",")+"; the reviewed wake argument only covers shutdownSent")
		return
	}
	run := e.Run(hd, e.Set("shutdownSent"))
	hpl := c.Fn("Association.handlePeerLastTSNAndAcknowledgement")
	abortPV := c.Fn("Association.abortProtocolViolation")
	target := func(in ssa.Instruction) bool {
		ci, ok := in.(ssa.CallInstruction)
		if !ok {
			return false
		}
		sc := ci.Common().StaticCallee()
		if sc == abortPV {
			return true
		}
		if sc == hpl {
			v, known := run.BoolValue(ci.Common().Args[1])
			return known && v
		}
		return false
	}
	ok, bad := MustPassOpt(s.Instr.Block(), instrIndex(s.Instr)+1, s.Instr, target, PathOpts{Feasible: run.Feasible})
	c.Check(ok, key, c.Pos(s.Instr), "in state shutdownSent every path from the store reaches abortProtocolViolation or handlePeerLastTSNAndAcknowledgement(true), which triggers an immediate ack and wake (see ack-trigger chain)",
		"LOST WAKE-UP: a path in state shutdownSent leaves handleData without an immediate-ack trigger at "+c.P.InstrPos(bad))
}

func (c *RuleCtx) ackTriggerChain() {
	hpl := c.Fn("Association.handlePeerLastTSNAndAcknowledgement")
	immF := c.field("Association", "immediateAckTriggered")
	awake := c.Fn("Association.awakeWriteLoop")
	// (a) sackImmediately=true ⇒ immediateAckTriggered=true on every path
	isImmStore := func(in ssa.Instruction) bool {
		st, ok := in.(*ssa.Store)
		return ok && fieldOfAddr(st.Addr) == immF && IsConstBool(true)(st.Val)
	}
	ok, bad := MustPassOpt(hpl.Blocks[0], 0, nil, isImmStore, PathOpts{Facts: map[ssa.Value]bool{hpl.Params[1]: true}})
	c.Check(ok, "trigger:sackImmediately⇒immediateAckTriggered", c.P.Pos(hpl.Pos()),
		"handlePeerLastTSNAndAcknowledgement(true) always sets immediateAckTriggered", "a path with sackImmediately=true does not set immediateAckTriggered: "+c.P.InstrPos(bad))
	// (b) handleChunksEnd: immediateAckTriggered ⇒ ackState=Immediate and wake
	hce := c.Fn("Association.handleChunksEnd")
	found := false
	forEachInstr(hce, func(in ssa.Instruction) {
		ifi, isIf := in.(*ssa.If)
		if !isIf || !IsLoadOf(immF)(ifi.Cond) {
			return
		}
		found = true
		ok, bad := MustPassFromBlock(ifi.Block().Succs[0], c.P.CallTargetPred(1, awake), PathOpts{})
		c.Check(ok, "trigger:handleChunksEnd-wakes", c.Pos(ifi), "immediateAckTriggered ⇒ writer woken at end of packet", "immediateAckTriggered path without wake: "+c.P.InstrPos(bad))
		ack := c.field("Association", "ackState")
		okS, _ := MustPassFromBlock(ifi.Block().Succs[0], func(x ssa.Instruction) bool {
			st, ok := x.(*ssa.Store)
			return ok && fieldOfAddr(st.Addr) == ack
		}, PathOpts{})
		c.Check(okS, "trigger:handleChunksEnd-sets-ackState", c.Pos(ifi), "immediateAckTriggered ⇒ ackState set", "immediateAckTriggered path does not set ackState")
	})
	c.Check(found, "trigger:handleChunksEnd-branch", c.P.Pos(hce.Pos()), "handleChunksEnd branches on immediateAckTriggered", "handleChunksEnd no longer tests immediateAckTriggered")
	// (c) handleInbound: after the chunk loop handleChunksEnd is always called unless a chunk handler returned an error
	hi := c.Fn("Association.handleInbound")
	for _, sc := range callsIn(hi, c.Fn("Association.handleChunksStart")) {
		ok, bad := MustPass(sc, c.P.CallTargetPred(0, hce), func(in ssa.Instruction) bool {
			r, isRet := in.(*ssa.Return)
			return isRet && len(r.Results) == 1 && !isNilConst(r.Results[0])
		})
		c.Check(ok, "trigger:handleInbound-ends", c.Pos(sc), "every packet whose chunks were handled ends with handleChunksEnd (fatal ABORT excepted)", "a path skips handleChunksEnd: "+c.P.InstrPos(bad))
	}
}

// isUnitCounter: an integer loop counter φ(0, φ+1).
func isUnitCounter(phi *ssa.Phi) bool {
	if len(loopBlocks(phi.Block())) == 0 {
		return false
	}
	zero, step := false, false
	for _, e := range phi.Edges {
		if IsConstInt(0)(e) {
			zero = true
		}
		if b, ok := e.(*ssa.BinOp); ok && b.Op == token.ADD && b.X == ssa.Value(phi) && IsConstInt(1)(b.Y) {
			step = true
		}
	}
	return zero && step
}

// laterIterationValue: for a loop-header φ with a constant entry value, the
// value it has on iterations after the first: the constant all back edges
// carry, or 3 for a unit counter.
func laterIterationValue(phi *ssa.Phi) (constant.Value, bool) {
	lp := loopBlocks(phi.Block())
	if len(lp) == 0 {
		return nil, false
	}
	var entryConst, backConst *ssa.Const
	backSame := true
	for i, e := range phi.Edges {
		k, isK := e.(*ssa.Const)
		if !lp[phi.Block().Preds[i]] {
			if !isK || k.Value == nil {
				return nil, false
			}
			entryConst = k
			continue
		}
		if !isK || k.Value == nil {
			backSame = false
			continue
		}
		if backConst != nil && !constant.Compare(backConst.Value, token.EQL, k.Value) {
			backSame = false
		}
		backConst = k
	}
	if entryConst == nil {
		return nil, false
	}
	if backSame && backConst != nil && !constant.Compare(backConst.Value, token.EQL, entryConst.Value) {
		return backConst.Value, true
	}
	if isUnitCounter(phi) {
		return constant.MakeInt64(3), true
	}
	return nil, false
}

// isGiveUpCall: v is a call of one of the chunk's give-up predicates (see giveUpPredicates).
func isGiveUpCall(c *RuleCtx, v ssa.Value) bool {
	for _, p := range giveUpPredicates(c) {
		if IsCallOf(p)(v) {
			return true
		}
	}
	return false
}
