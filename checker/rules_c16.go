package main

import (
	"fmt"
	"go/token"
	"go/types"
	"strings"

	"golang.org/x/tools/go/ssa"
)

// flagGuarded: serial fields whose reads are meaningful only under a validity flag.
var flagGuarded = map[string]string{
	"fastRecoverExitPoint": "inFastRecovery",
	"tlrEndTSN":            "tlrActive",
}

func init() {
	register(&Rule{ID: "C16.R1", Props: []string{"C16", "C05", "C07", "C14"}, Engine: "E6",
		Title:   "no raw ordered comparison (< <= > >=) has a sequence-number operand; ordering goes through the sna* helpers or compares distances",
		MinInst: 40,
		Run: func(c *RuleCtx) {
			e := c.P.Serial()
			for _, m := range e.Miss {
				c.Unresolved("serial field " + m)
			}
			ks := keyer{}
			nSer := 0
			for v, k := range e.kind {
				if k == serSerial {
					nSer++
				}
				_ = v
			}
			c.Check(nSer >= 150, "serial-values", "", fmt.Sprintf("%d SSA values classified as sequence numbers from %d seed fields", nSer, len(e.fields)), "serial taint found too few values")
			for _, fn := range c.P.Funcs {
				name := c.P.FuncName(fn)
				if isSnaHelper(name) {
					continue
				}
				forEachInstr(fn, func(in ssa.Instruction) {
					b, ok := in.(*ssa.BinOp)
					if !ok {
						return
					}
					switch b.Op {
					case token.LSS, token.LEQ, token.GTR, token.GEQ:
					default:
						return
					}
					kx, ky := e.kind[b.X], e.kind[b.Y]
					if kx == serSerial || ky == serSerial {
						c.Fail(ks.key("raw-compare@"+name), c.Pos(in), fmt.Sprintf("raw '%s' on a sequence number (%s %s %s): result flips when the operands straddle the wrap", b.Op, shortValue(c.P, b.X), b.Op, shortValue(c.P, b.Y)))
					} else if kx == serDistance || ky == serDistance {
						c.Ok(ks.key("distance-compare@"+name), c.Pos(in), "comparison of a distance (difference of two sequence numbers)")
					}
				})
			}
			// the builtin min/max are ordered comparisons too
			for _, fn := range c.P.Funcs {
				name := c.P.FuncName(fn)
				if isSnaHelper(name) {
					continue
				}
				forEachInstr(fn, func(in ssa.Instruction) {
					call, ok := in.(*ssa.Call)
					if !ok {
						return
					}
					b, ok := call.Call.Value.(*ssa.Builtin)
					if !ok || (b.Name() != "min" && b.Name() != "max") {
						return
					}
					for _, a := range call.Call.Args {
						if e.kind[a] == serSerial {
							c.Fail(ks.key("raw-compare@"+name), c.Pos(in), fmt.Sprintf("builtin %s() applied to a sequence number (%s): numeric order is wrong across the wrap", b.Name(), shortValue(c.P, a)))
							return
						}
					}
				})
			}
			// helper functions max32/min32/min16 on serials
			for _, hn := range []string{"max32", "min32", "min16"} {
				h := c.P.Fn(hn)
				if h == nil {
					continue
				}
				for _, cs := range c.P.CallSitesOf(h) {
					for _, a := range cs.Instr.Common().Args {
						if e.kind[a] == serSerial {
							c.Fail(ks.key("raw-compare@"+c.P.FuncName(cs.Fn)), c.Pos(cs.Instr), hn+"() applied to a sequence number: numeric order is wrong across the wrap")
						}
					}
				}
			}
			// every call of an sna helper is an obligation discharged by R2
			for _, fn := range c.P.Funcs {
				forEachInstr(fn, func(in ssa.Instruction) {
					if ci, ok := in.(ssa.CallInstruction); ok {
						if sc := ci.Common().StaticCallee(); sc != nil && isSnaHelper(c.P.FuncName(sc)) && !isSnaHelper(c.P.FuncName(fn)) {
							c.Ok(ks.key("sna-compare@"+c.P.FuncName(fn)), c.Pos(in), "ordering via "+c.P.FuncName(sc))
						}
					}
				})
			}
		}})

	register(&Rule{ID: "C16.R2", Props: []string{"C16"}, Engine: "E6-ordering-domain",
		Title:   "the sna* helpers implement RFC 1982 order: evaluated exhaustively over the 7 feasible (numeric order × forward-distance class) states; trichotomy off the half-point, LT/GT antisymmetry, LTE=LT∨EQ, GTE=GT∨EQ, shift invariance",
		MinInst: 60,
		Run: func(c *RuleCtx) {
			for _, w := range []uint{32, 16} {
				pre := fmt.Sprintf("sna%d", w)
				tab := map[string]map[int]bool{}
				for _, op := range []string{"LT", "LTE", "GT", "GTE", "EQ"} {
					fn := c.Fn(pre + op)
					tab[op] = map[int]bool{}
					for i, st := range snaFeasible {
						st.width = w
						v, why := evalSna(c.P, fn, st, 0)
						if why != "" {
							c.Fail(fmt.Sprintf("eval:%s%s@d=%s,less=%v", pre, op, st.d, st.less), c.P.Pos(fn.Pos()), "UNDECIDED: "+why)
							continue
						}
						tab[op][i] = v
						c.Ok(fmt.Sprintf("eval:%s%s@d=%s,less=%v", pre, op, st.d, st.less), c.P.Pos(fn.Pos()), fmt.Sprintf("= %v", v))
					}
				}
				for i, st := range snaFeasible {
					lt, gt, eq, lte, gte := tab["LT"][i], tab["GT"][i], tab["EQ"][i], tab["LTE"][i], tab["GTE"][i]
					key := fmt.Sprintf("%s@d=%s,less=%v", pre, st.d, st.less)
					if st.d != dHalf {
						n := 0
						for _, b := range []bool{lt, gt, eq} {
							if b {
								n++
							}
						}
						c.Check(n == 1, "trichotomy:"+key, "", "exactly one of before/equal/after", fmt.Sprintf("LT=%v EQ=%v GT=%v", lt, eq, gt))
						want := map[dClass][3]bool{dZero: {false, true, false}, dLo: {true, false, false}, dHi: {false, false, true}}[st.d]
						c.Check(lt == want[0] && eq == want[1] && gt == want[2], "rfc1982:"+key, "", "matches serial-number order for this distance class", fmt.Sprintf("LT=%v EQ=%v GT=%v, want %v", lt, eq, gt, want))
					}
					c.Check(lte == (lt || eq), "lte:"+key, "", "LTE = LT ∨ EQ", "LTE ≠ LT ∨ EQ")
					c.Check(gte == (gt || eq), "gte:"+key, "", "GTE = GT ∨ EQ", "GTE ≠ GT ∨ EQ")
				}
				// shift invariance: same distance class, different numeric order ⇒ same answers
				for _, op := range []string{"LT", "LTE", "GT", "GTE", "EQ"} {
					for _, pr := range [][2]int{{1, 2}, {3, 4}, {5, 6}} {
						c.Check(tab[op][pr[0]] == tab[op][pr[1]], fmt.Sprintf("shift-invariant:%s%s@d=%s", pre, op, snaFeasible[pr[0]].d), "",
							"answer depends on the distance only, not on where the pair sits relative to the wrap", "answer differs across the wrap for the same distance")
					}
				}
				// antisymmetry LT(a,b) = GT(b,a) for d != H: state i for (a,b) ↔ negated class, flipped order for (b,a)
				flip := map[int]int{0: 0, 1: 6, 2: 5, 5: 2, 6: 1}
				for i, j := range flip {
					c.Check(tab["LT"][i] == tab["GT"][j], fmt.Sprintf("antisymmetry:%s@d=%s,less=%v", pre, snaFeasible[i].d, snaFeasible[i].less), "", "LT(a,b) = GT(b,a)", "LT(a,b) ≠ GT(b,a)")
				}
			}
		}})

	register(&Rule{ID: "C16.R3", Props: []string{"C16", "C05", "C02"}, Engine: "E6-pow2",
		Title:   "ring indices derived from a sequence number are continuous at the 2^32 wrap: every modulus applied to a TSN-derived index is a power of two",
		MinInst: 5,
		Run: func(c *RuleCtx) {
			e := c.P.Serial()
			ks := keyer{}
			derivesSerial := Derives(func(v ssa.Value) bool { return e.kind[v] == serSerial })
			derivesQuot := func(v ssa.Value) bool {
				// (serial / k) possibly converted
				found := false
				var walk func(v ssa.Value, d int)
				walk = func(v ssa.Value, d int) {
					if d > 6 || found {
						return
					}
					switch x := unconv(v).(type) {
					case *ssa.BinOp:
						if e.kind[x.X] == serSerial || e.kind[x.Y] == serSerial {
							found = true
							return
						}
						walk(x.X, d+1)
						walk(x.Y, d+1)
					}
					if e.kind[unconv(v)] == serSerial {
						found = true
					}
				}
				walk(v, 0)
				return found
			}
			_ = derivesSerial
			for _, fn := range c.P.Funcs {
				name := c.P.FuncName(fn)
				forEachInstr(fn, func(in ssa.Instruction) {
					b, ok := in.(*ssa.BinOp)
					if !ok || b.Op != token.REM || !derivesQuot(b.X) {
						return
					}
					if _, isConst := unconv(b.Y).(*ssa.Const); isConst {
						c.Check(isPow2Const(b.Y), ks.key("mod-const@"+name), c.Pos(in), "constant power-of-two modulus", "modulus of a TSN-derived value is a constant that is not a power of two")
						return
					}
					// modulus must be len(x.f) with every allocation of f a power of two
					call, ok := b.Y.(*ssa.Call)
					var f *types.Var
					if ok {
						if bi, isB := call.Call.Value.(*ssa.Builtin); isB && bi.Name() == "len" {
							f, _ = loadedField(call.Call.Args[0])
						}
					}
					if f == nil {
						c.Fail(ks.key("mod-var@"+name), c.Pos(in), "modulus of a TSN-derived value is neither a constant nor len(field)")
						return
					}
					okAll := true
					why := ""
					nAlloc := 0
					for _, a := range c.P.Writes(f) {
						if a.Kind != AccWrite {
							continue
						}
						ms, isMake := unconv(a.Val).(*ssa.MakeSlice)
						if !isMake {
							okAll, why = false, "ring assigned from something other than make() at "+c.Pos(a.Instr)
							continue
						}
						nAlloc++
						if !isPow2(ms.Len, map[ssa.Value]bool{}) {
							okAll, why = false, fmt.Sprintf("ring allocated at %s with length %s, not provably a power of two", c.Pos(a.Instr), shortValue(c.P, ms.Len))
						}
					}
					if nAlloc == 0 {
						okAll, why = false, "no allocation of the ring found"
					}
					c.Check(okAll, ks.key("mod-len("+f.Name()+")@"+name), c.Pos(in), "modulus len("+f.Name()+") is a power of two for every allocation: the word index is continuous at the 2^32 wrap",
						"ring index (tsn/64) % len("+f.Name()+") jumps at the 2^32 wrap: "+why)
				})
			}
		}})

	register(&Rule{ID: "C16.R4", Props: []string{"C16"}, Engine: "E6",
		Title:   "sequence-number state starts in its own space: every TSN/RSN field of Association compared by an sna helper is initialised from a sequence number (constructor) or is read only under its validity flag; no constant is stored into it otherwise",
		MinInst: 8,
		Run: func(c *RuleCtx) {
			e := c.P.Serial()
			_, st := c.P.NamedStruct("Association")
			ctor := c.Fn("createAssociationFromConfigWithTsn")
			for i := 0; i < st.NumFields(); i++ {
				f := st.Field(i)
				sp, ok := e.fields[f]
				if !ok || (sp != "TSN" && sp != "RSN") {
					continue
				}
				// is it ever an operand of an sna helper?
				compared := false
				var readsUnguarded []string
				for _, a := range c.P.Reads(f) {
					v, isVal := a.Instr.(ssa.Value)
					if !isVal {
						continue
					}
					for _, ref := range *v.Referrers() {
						ci, ok := ref.(ssa.CallInstruction)
						if !ok {
							continue
						}
						sc := ci.Common().StaticCallee()
						if sc == nil || !isSnaHelper(c.P.FuncName(sc)) {
							continue
						}
						compared = true
						if flag, ok := flagGuarded[f.Name()]; ok {
							ff := c.field("Association", flag)
							if !DominatedByExt(ref, BoolCond(IsLoadOf(ff), true)) {
								readsUnguarded = append(readsUnguarded, c.Pos(ref))
							}
						}
					}
				}
				ctorInit := false
				plainStores := []string{}
				for _, a := range c.P.Writes(f) {
					if a.Kind != AccWrite {
						continue
					}
					isSer := e.kind[a.Val] == serSerial
					if a.Fn == ctor && isSer {
						ctorInit = true
					}
					if !isSer {
						if _, isConst := unconv(a.Val).(*ssa.Const); isConst {
							plainStores = append(plainStores, c.Pos(a.Instr))
						}
					}
				}
				key := "serial-init:" + f.Name()
				if flag, ok := flagGuarded[f.Name()]; ok {
					c.Check(len(readsUnguarded) == 0, key, c.P.Pos(f.Pos()), "read by comparisons only under its validity flag "+flag,
						"compared outside its validity flag "+flag+" at "+strings.Join(readsUnguarded, ","))
					continue
				}
				if !compared && len(plainStores) == 0 {
					c.Check(ctorInit || len(c.P.Writes(f)) > 0, key, c.P.Pos(f.Pos()), "not compared; no constant stored", "field never written")
					continue
				}
				ok2 := ctorInit && len(plainStores) == 0
				why := ""
				if !ctorInit {
					why = "never initialised from a sequence number in the constructor (starts at the implicit 0, which is half the number space away from initial TSNs ≥ 2^31)"
				}
				if len(plainStores) > 0 {
					why += " constant stored at " + strings.Join(plainStores, ",")
				}
				c.Check(ok2, key, c.P.Pos(f.Pos()), "initialised in the constructor from the initial TSN; never reset to a constant", "serial state outside its own space: "+why)
			}
		}})
}
