// SPDX-FileCopyrightText: 2026 The Pion community <https://pion.ly>
// SPDX-License-Identifier: MIT

package sctp

import (
	"sync/atomic"
	"testing"
	"time"

	"github.com/pion/transport/v4/test"
	"github.com/stretchr/testify/require"
)

// C15: after the PEER resets its outgoing side of a stream (our inbound side), the local
// half of the stream stays open for writing ("Remote has reset its send side of the stream,
// we can still send data"), but the stream has been removed from a.streams, so the
// acknowledgement path no longer finds it: the bytes of every write accepted afterwards (or
// still outstanding at that moment) are never released from Stream.BufferedAmount() and the
// low-threshold callback never fires.
func TestHunt1BufferedAmountStuckAfterPeerReset(t *testing.T) {
	lim := test.TimeOut(time.Second * 10)
	defer lim.Stop()

	const si uint16 = 1
	br := test.NewBridge()

	a0, a1, err := createNewAssociationPair(br, ackModeNoDelay, 0)
	require.NoError(t, err)
	defer closeAssociationPair(br, a0, a1)

	s0, s1, err := establishSessionPair(br, a0, a1, si)
	require.NoError(t, err)
	require.Equal(t, uint64(0), s0.BufferedAmount())

	var nCalls int32
	s0.SetBufferedAmountLowThreshold(10)
	s0.OnBufferedAmountLow(func() { atomic.AddInt32(&nCalls, 1) })

	// The peer closes ITS outgoing side of the stream: a0 sees an inbound stream reset.
	require.NoError(t, s1.Close())
	require.Eventually(t, func() bool {
		br.Process()
		a0.lock.RLock()
		_, found := a0.streams[si]
		a0.lock.RUnlock()

		return !found
	}, 5*time.Second, 5*time.Millisecond, "a0 should have processed the inbound reset")

	// Our outgoing half is still open, and the write is accepted.
	require.Equal(t, StreamStateOpen, s0.State())
	msg := make([]byte, 1000)
	n, err := s0.WriteSCTP(msg, PayloadTypeWebRTCBinary)
	require.NoError(t, err)
	require.Equal(t, len(msg), n)
	require.Equal(t, uint64(len(msg)), s0.BufferedAmount())

	// Deliver and acknowledge everything.
	flushBuffers(br, a0, a1)
	for i := 0; i < 20; i++ {
		br.Process()
		time.Sleep(5 * time.Millisecond)
	}

	a0.lock.RLock()
	inflight := a0.inflightQueue.size()
	pending := a0.pendingQueue.size()
	a0.lock.RUnlock()
	require.Equal(t, 0, inflight, "everything has been acknowledged")
	require.Equal(t, 0, pending)
	require.Equal(t, 0, a0.BufferedAmount(), "association-level figure is back to zero")

	// Nothing is outstanding: the stream's figure must be exactly zero and the 1000 -> 0
	// transition crossed the threshold (10) downwards.
	require.Equal(t, uint64(0), s0.BufferedAmount(),
		"stream buffered amount must return to zero when nothing is outstanding")
	require.Equal(t, int32(1), atomic.LoadInt32(&nCalls), "low-threshold callback must fire")
}

// Same root cause, second symptom: the acknowledgement is credited by stream identifier to
// whatever Stream object currently sits in a.streams. If the application re-opens the stream
// identifier after the peer's reset, bytes written through the OLD object are released from the
// NEW object, whose counter would underflow (it is clamped to zero and an error is logged),
// while the old object's counter never returns to zero.
func TestHunt1bAckCreditedToReopenedStream(t *testing.T) {
	lim := test.TimeOut(time.Second * 10)
	defer lim.Stop()

	const si uint16 = 1
	br := test.NewBridge()

	a0, a1, err := createNewAssociationPair(br, ackModeNoDelay, 0)
	require.NoError(t, err)
	defer closeAssociationPair(br, a0, a1)

	s0, s1, err := establishSessionPair(br, a0, a1, si)
	require.NoError(t, err)

	require.NoError(t, s1.Close())
	require.Eventually(t, func() bool {
		br.Process()
		a0.lock.RLock()
		_, found := a0.streams[si]
		a0.lock.RUnlock()

		return !found
	}, 5*time.Second, 5*time.Millisecond)

	// 1000 bytes through the old object (not delivered yet: the bridge is not processed).
	_, err = s0.WriteSCTP(make([]byte, 1000), PayloadTypeWebRTCBinary)
	require.NoError(t, err)

	// the application opens the same stream identifier again and writes 600 bytes.
	s0b, err := a0.OpenStream(si, PayloadTypeWebRTCBinary)
	require.NoError(t, err)
	require.NotSame(t, s0, s0b)
	_, err = s0b.WriteSCTP(make([]byte, 600), PayloadTypeWebRTCBinary)
	require.NoError(t, err)

	flushBuffers(br, a0, a1)
	for i := 0; i < 20; i++ {
		br.Process()
		time.Sleep(5 * time.Millisecond)
	}
	require.Equal(t, 0, a0.BufferedAmount())
	require.Equal(t, uint64(0), s0b.BufferedAmount())
	require.Equal(t, uint64(0), s0.BufferedAmount(),
		"old stream object: 1000 bytes acknowledged but released from the re-opened object instead")
}
