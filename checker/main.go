package main

import (
	"encoding/json"
	"flag"
	"fmt"
	"os"
	"path/filepath"
	"sort"
	"strconv"
	"strings"
	"time"
)

var allRules []*Rule

func register(r *Rule) { allRules = append(allRules, r) }

func rulesFor(prop string) []*Rule {
	var out []*Rule
	for _, r := range allRules {
		for _, p := range r.Props {
			if p == prop {
				out = append(out, r)
				break
			}
		}
	}
	sort.SliceStable(out, func(i, j int) bool { return ruleLess(out[i].ID, out[j].ID) })
	return out
}

func usage() {
	fmt.Fprintln(os.Stderr, `usage:
  sctpverif check <Cxx> [--tier quick|thorough] [--repo DIR] [--verif DIR]
  sctpverif all [--tier quick|thorough] [--repo DIR] [--verif DIR] [--no-evidence]
  sctpverif list
  sctpverif ssa <funcname> [--repo DIR]`)
	os.Exit(2)
}

func main() {
	if len(os.Args) < 2 {
		usage()
	}
	cmd := os.Args[1]
	fs := flag.NewFlagSet(cmd, flag.ExitOnError)
	tier := fs.String("tier", envOr("VERIF_TIER", "quick"), "quick|thorough")
	repo := fs.String("repo", "/repo", "repository directory")
	verif := fs.String("verif", "/verif", "verif directory")
	noEv := fs.Bool("no-evidence", false, "do not write evidence files")
	only := fs.String("rule", "", "run only this rule id")
	var pos []string
	args := os.Args[2:]
	// allow positional before flags
	for len(args) > 0 && !strings.HasPrefix(args[0], "-") {
		pos = append(pos, args[0])
		args = args[1:]
	}
	_ = fs.Parse(args)
	pos = append(pos, fs.Args()...)
	seed, _ := strconv.Atoi(envOr("VERIF_SEED", "0"))

	switch cmd {
	case "list":
		for _, r := range allRules {
			fmt.Printf("%-8s %-28s min=%d  %s\n", r.ID, strings.Join(r.Props, ","), r.MinInst, r.Title)
		}
	case "ssa":
		if len(pos) != 1 {
			usage()
		}
		p, err := Load(*repo, "", "")
		if err != nil {
			fmt.Fprintln(os.Stderr, err)
			os.Exit(1)
		}
		if pos[0] == "names" {
			for _, f := range p.Funcs {
				fmt.Println(p.FuncName(f), f.Synthetic)
			}
			return
		}
		fn := p.Fn(pos[0])
		if fn == nil {
			fmt.Fprintln(os.Stderr, "no such function")
			os.Exit(1)
		}
		fn.WriteTo(os.Stdout)
	case "check":
		if len(pos) != 1 {
			usage()
		}
		os.Exit(runProps([]string{pos[0]}, *tier, *repo, *verif, seed, !*noEv, *only))
	case "anchors":
		// fingerprints of the declared functions of the reviewed tree (embedded as anchors_ref.json)
		p, err := Load(*repo, "", "")
		if err != nil {
			fmt.Fprintln(os.Stderr, err)
			os.Exit(1)
		}
		p.alias = nil
		if len(pos) == 1 && pos[0] == "fields" {
			b, _ := json.MarshalIndent(p.FieldTable(), "", " ")
			fmt.Println(string(b))
			return
		}
		b, _ := json.MarshalIndent(p.AnchorTable(), "", " ")
		fmt.Println(string(b))
	case "coverage":
		// which functions have obligations anchored inside them (blind-spot finder, not a check)
		p, err := Load(*repo, "", "")
		if err != nil {
			fmt.Fprintln(os.Stderr, err)
			os.Exit(1)
		}
		type span struct {
			file       string
			start, end int
			name       string
			n          int
			rules      map[string]bool
			instrs     int
		}
		var spans []*span
		for _, f := range p.Funcs {
			if f.Syntax() == nil || f.Parent() != nil {
				continue
			}
			ps, pe := p.Fset.Position(f.Syntax().Pos()), p.Fset.Position(f.Syntax().End())
			ni := 0
			for _, b := range f.Blocks {
				ni += len(b.Instrs)
			}
			spans = append(spans, &span{filepath.Base(ps.Filename), ps.Line, pe.Line, p.FuncName(f), 0, map[string]bool{}, ni})
		}
		for _, r := range allRules {
			res := runRule(p, r, "quick", "")
			for _, o := range res.Obs {
				var file string
				var line int
				if i := strings.LastIndex(o.Pos, ":"); i > 0 {
					file = o.Pos[:i]
					fmt.Sscan(o.Pos[i+1:], &line)
				}
				for _, sp := range spans {
					if sp.file == file && line >= sp.start && line <= sp.end {
						sp.n++
						sp.rules[r.ID] = true
					}
				}
			}
		}
		sort.Slice(spans, func(i, j int) bool {
			if spans[i].n != spans[j].n {
				return spans[i].n < spans[j].n
			}
			return spans[i].instrs > spans[j].instrs
		})
		for _, sp := range spans {
			var rs []string
			for r := range sp.rules {
				rs = append(rs, r)
			}
			sort.Strings(rs)
			fmt.Printf("%4d obligations %5d instrs  %s:%d  %s  %s\n", sp.n, sp.instrs, sp.file, sp.start, sp.name, strings.Join(rs, ","))
		}
	case "all":
		props := map[string]bool{}
		for _, r := range allRules {
			for _, p := range r.Props {
				props[p] = true
			}
		}
		var ids []string
		for p := range props {
			ids = append(ids, p)
		}
		sort.Strings(ids)
		os.Exit(runProps(ids, *tier, *repo, *verif, seed, !*noEv, *only))
	default:
		usage()
	}
}

func envOr(k, d string) string {
	if v := os.Getenv(k); v != "" {
		return v
	}
	return d
}

func runProps(props []string, tier, repo, verif string, seed int, writeEv bool, only string) int {
	start := time.Now()
	known, err := loadKnown(verif)
	if err != nil {
		fmt.Printf("ERROR reading known_findings.json: %v\n", err)
		return 1
	}
	type loaded struct {
		arch string
		p    *Prog
		err  error
	}
	archs := []string{""}
	if tier == "thorough" {
		archs = append(archs, "386")
	}
	var progs []loaded
	for _, a := range archs {
		p, err := Load(repo, a, "")
		progs = append(progs, loaded{a, p, err})
	}
	exit := 0
	for _, prop := range props {
		t0 := time.Now()
		rules := rulesFor(prop)
		var obs []Obligation
		var ruleSumm []map[string]any
		analysed := map[string]any{}
		for _, l := range progs {
			archName := l.arch
			if archName == "" {
				archName = "host(amd64)"
			}
			if l.err != nil {
				obs = append(obs, Obligation{Rule: prop + ".load", Construct: "load:" + archName, OK: false,
					Fact: "cannot load/type-check /repo: " + l.err.Error(), Status: "UNRESOLVED"})
				continue
			}
			if l.arch == "" {
				analysed["package"] = l.p.Types.Path()
				analysed["files"] = l.p.NFiles
				analysed["functions"] = len(l.p.Funcs)
				ne := 0
				for _, es := range l.p.cg {
					ne += len(es)
				}
				analysed["callgraph_edges"] = ne
				if len(l.p.Renames) > 0 {
					analysed["renamed_anchors_followed"] = l.p.Renames
					for _, rn := range l.p.Renames {
						fmt.Printf("NOTE      %s: %s\n", prop, rn)
					}
				}
			}
			for _, r := range rules {
				if only != "" && r.ID != only {
					continue
				}
				res := runRule(l.p, r, tier, l.arch)
				for i := range res.Obs {
					if l.arch != "" {
						res.Obs[i].Construct += "@" + l.arch
					}
				}
				obs = append(obs, res.Obs...)
				if l.arch == "" {
					ruleSumm = append(ruleSumm, map[string]any{"rule": r.ID, "decides": r.Title, "engine": r.Engine,
						"instances": res.NumObs, "min_instances": r.MinInst})
				}
				if res.Panic != "" {
					fmt.Printf("PANIC in %s: %s\n", r.ID, res.Panic)
				}
			}
		}
		if len(rules) == 0 {
			obs = append(obs, Obligation{Rule: prop, Construct: "no-rules", OK: false, Fact: "no rules registered for " + prop, Status: "UNRESOLVED"})
		}
		// apply known findings
		nViol, nKnown, nOK := 0, 0, 0
		var viol []Obligation
		distinct := map[string]bool{}
		for i := range obs {
			o := &obs[i]
			key := o.Construct
			if j := strings.LastIndex(key, "@"); j >= 0 && (strings.HasSuffix(key, "@386")) {
				key = key[:j]
			}
			if !o.OK {
				matched := false
				for _, k := range known {
					if k.Status == "known" && k.Rule == o.Rule && k.Construct == key {
						matched = true
						o.Status = "KNOWN"
						if !strings.HasSuffix(o.Construct, "@386") {
							fmt.Printf("KNOWN-FINDING: property=%s %s %s: %s\n", prop, o.Rule, key, k.What)
						}
						break
					}
				}
				if matched {
					nKnown++
					continue
				}
				nViol++
				viol = append(viol, *o)
			} else {
				nOK++
				distinct[o.Rule+"|"+key] = true
			}
		}
		// genuine defects that were demonstrated dynamically (independent bug hunters) and are neither repaired nor
		// decided by any static rule: listed so that they are not mistaken for "holds"; they suppress nothing
		for _, k := range known {
			if k.Status == "known-dynamic" && k.Property == prop {
				fmt.Printf("KNOWN-FINDING: property=%s (no static rule decides this; demonstrated by %s) %s\n", prop, k.Demo, k.What)
			}
		}
		sortObs(obs)
		for _, o := range obs {
			switch {
			case o.Status == "discharged" && os.Getenv("VERIF_VERBOSE") == "":
			default:
				fmt.Printf("%-10s %s %s [%s] %s\n", o.Status, o.Rule, o.Construct, o.Pos, o.Fact)
			}
		}
		fmt.Printf("%s: %d obligations, %d discharged, %d known findings, %d violations (%d rules, tier=%s)\n",
			prop, len(obs), nOK, nKnown, nViol, len(rules), tier)
		violPath := filepath.Join(verif, "evidence", prop+".violations.json")
		if nViol > 0 {
			exit = 1
			if writeEv {
				_ = writeJSON(violPath, map[string]any{"property": prop, "tier": tier, "violations": viol,
					"replay": fmt.Sprintf("cd %s && bin/sctpverif check %s --tier %s", verif, prop, tier)})
			}
			fmt.Printf("VIOLATION property=%s replay=%s\n", prop, violPath)
		} else if writeEv {
			_ = os.Remove(violPath)
		}
		var sweep []sweepResult
		if tier == "thorough" && only == "" {
			baseFailed := map[string]bool{}
			for _, o := range obs {
				if !o.OK {
					baseFailed[o.Rule+"|"+o.Construct] = true
				}
			}
			sweep = runSweep(prop, repo, verif, rules, baseFailed)
			nRep, nSeed, nSil, nPres := 0, 0, 0, 0
			for _, sr := range sweep {
				if sr.Kind == "seeded" {
					nSeed++
					if sr.Outcome == "reported" {
						nRep++
					}
				} else {
					nPres++
					if sr.Outcome == "silent" {
						nSil++
					}
				}
				if sr.Outcome != "reported" && sr.Outcome != "silent" {
					fmt.Printf("SENSITIVITY %s %s: %s\n", sr.Kind, sr.Variant, sr.Outcome)
				}
			}
			fmt.Printf("%s: sensitivity sweep: %d/%d seeded defects reported, %d/%d behaviour-preserving variants silent\n", prop, nRep, nSeed, nSil, nPres)
		}
		if writeEv {
			samples := []any{}
			perRule := map[string]int{}
			for _, o := range obs {
				if perRule[o.Rule] < 3 {
					perRule[o.Rule]++
					samples = append(samples, o)
				}
			}
			var ruleDesc []string
			for _, r := range rules {
				ruleDesc = append(ruleDesc, r.ID+": "+r.Title)
			}
			ev := Evidence{
				PropertyID: prop, Tier: tier, Seed: seed, Level: "other",
				Coverage: map[string]any{
					"explanation": "Static analysis of /repo's current source (go/packages type-check, go/ssa, package-local call graph). " +
						"Each rule decides a structural necessary condition of the property for every path/site/table entry at once; " +
						"it does not decide the behaviour itself. Rules: " + strings.Join(ruleDesc, " | "),
					"obligations":         len(obs),
					"discharged":          nOK,
					"known_findings":      nKnown,
					"evaluations":         len(obs),
					"distinct_nontrivial": len(distinct),
					"rule":                "one obligation per (rule, resolved construct); distinct = distinct (rule, construct) pairs discharged; a rule matching fewer instances than its hand-confirmed minimum fails as UNRESOLVED",
					"samples":             samples,
					"rules":               ruleSumm,
					"analysed":            analysed,
					"architectures":       archs,
					"checker_cmd":         fmt.Sprintf("bin/sctpverif check %s --tier %s", prop, tier),
					"trusted_base": []string{"go/types", "golang.org/x/tools/go/ssa v0.29.0", "golang.org/x/tools/go/packages",
						"the frozen spec tables compiled into the checker (rules_*.go) and /verif/known_findings.json"},
					"exhaustive": false,
				},
				Assumptions: []string{
					"rules are necessary conditions: a pass means the listed structure is intact, not that the behaviour holds",
					"call graph: static callees + interface dispatch over package types + function-value references; reflection/unsafe/linkname not modelled (none in package)",
					"test files are not analysed (Tests:false); build tags: default",
				},
				WallS:      time.Since(t0).Seconds() + time.Since(start).Seconds()/float64(len(props)),
				Violations: nViol,
			}
			if sweep != nil {
				ev.Coverage["sensitivity_sweep"] = sweep
				ev.Coverage["sensitivity_note"] = "variants are analysed in scratch copies, never executed; the sweep is about the checker's own discrimination and does not change the exit status"
			}
			if err := writeJSON(filepath.Join(verif, "evidence", prop+".json"), ev); err != nil {
				fmt.Printf("ERROR writing evidence: %v\n", err)
				exit = 1
			}
		}
	}
	return exit
}
