package main

import (
	"fmt"
	"go/constant"
	"go/token"
	"go/types"
	"strings"

	"golang.org/x/tools/go/ssa"
)

// elementStores lists stores to elements of the slice held in field f.
func (c *RuleCtx) elementStores(f *types.Var) []*ssa.Store {
	var out []*ssa.Store
	for _, fn := range c.P.Funcs {
		forEachInstr(fn, func(in ssa.Instruction) {
			st, ok := in.(*ssa.Store)
			if !ok {
				return
			}
			ia, ok := st.Addr.(*ssa.IndexAddr)
			if !ok {
				return
			}
			if IsLoadOf(f)(ia.X) {
				out = append(out, st)
			}
		})
	}
	return out
}

// allocSites lists functions that allocate a value of the named struct type.
func (c *RuleCtx) allocSites(typeName string) map[string][]ssa.Instruction {
	out := map[string][]ssa.Instruction{}
	for _, fn := range c.P.Funcs {
		forEachInstr(fn, func(in ssa.Instruction) {
			al, ok := in.(*ssa.Alloc)
			if !ok {
				return
			}
			if !al.Heap {
				return // spilled value receiver / local copy, not a construction
			}
			if typeShort(al.Type()) == "*"+typeName {
				n := c.P.FuncName(fn)
				out[n] = append(out[n], in)
			}
		})
	}
	return out
}

func init() {
	register(&Rule{ID: "C05.R1", Props: []string{"C05"}, Engine: "E2+E3",
		Title:   "the receive cumulative TSN is written only by (re)initialisation from the handshake, by +1 over a received TSN, or by a forward-TSN jump guarded by serial comparison; forced advance is never used",
		MinInst: 9,
		Run: func(c *RuleCtx) {
			cum := c.field("receivePayloadQueue", "cumulativeTSN")
			c.WritersWithin("cum", cum, "receivePayloadQueue.init", "receivePayloadQueue.pop", "receivePayloadQueue.advanceCumulativeTSN")
			c.CallersWithin("init", c.Fn("receivePayloadQueue.init"), "Association.handleInit", "Association.handleInitAck", "Association.initWithOutOfBandTokens")
			pop := c.Fn("receivePayloadQueue.pop")
			has := c.Fn("receivePayloadQueue.hasChunk")
			ks := keyer{}
			for _, a := range c.storesIn(pop, cum) {
				c.Check(BinV(token.ADD, IsLoadOf(cum), IsConstInt(1))(a.Val), ks.key("pop-plus-one"), c.Pos(a.Instr), "cumulativeTSN <- cumulativeTSN+1", "pop advances by something other than 1")
				if DominatedByExt(a.Instr, BoolCond(IsParam(pop, 1), true)) {
					c.Ok(ks.key("pop-forced-branch"), c.Pos(a.Instr), "forced advance only under force==true (callers checked below)")
				} else {
					c.Dom(ks.key("pop-needs-received"), a.Instr, CallCond(has, true, nil, BinV(token.ADD, IsLoadOf(cum), IsConstInt(1))), "hasChunk(cumulativeTSN+1)==true")
				}
			}
			for _, cs := range c.P.CallSitesOf(pop) {
				c.Check(IsConstBool(false)(callArg(cs.Instr, 1)), ks.key("pop-never-forced@"+c.P.FuncName(cs.Fn)), c.Pos(cs.Instr), "pop(false): the cumulative point moves only over received TSNs", "pop called with force: the cumulative point can cover a TSN never received")
			}
		}})

	register(&Rule{ID: "C05.R2", Props: []string{"C05", "C11"}, Engine: "E2+E3",
		Title:   "a bitmap bit is set only in push, for a TSN inside the window that is neither below the cumulative point nor already recorded; push is reached only on the delivery path",
		MinInst: 8,
		Run: func(c *RuleCtx) {
			mask := c.field("receivePayloadQueue", "tsnBitmask")
			cum := c.field("receivePayloadQueue", "cumulativeTSN")
			maxOff := c.field("receivePayloadQueue", "maxTSNOffset")
			push := c.Fn("receivePayloadQueue.push")
			ks := keyer{}
			nSet := 0
			for _, st := range c.elementStores(mask) {
				fn := c.P.FuncName(st.Parent())
				kind := "clear"
				if b, ok := st.Val.(*ssa.BinOp); ok && b.Op == token.OR {
					kind = "set"
				} else if k, ok := st.Val.(*ssa.Const); ok && k.Value != nil && k.Value.String() == "0" {
					kind = "zero"
				} else if b, ok := st.Val.(*ssa.BinOp); ok && (b.Op == token.AND || b.Op == token.AND_NOT) {
					kind = "clear"
				} else {
					kind = "other"
				}
				switch kind {
				case "set":
					nSet++
					c.Check(st.Parent() == push, ks.key("bit-set@"+fn), c.Pos(st), "bits are set only in push", "a bit is set outside push: the SACK could name a TSN never accepted")
				case "other":
					c.Fail(ks.key("bit-write@"+fn), c.Pos(st), "unclassified write to the receive bitmap")
				default:
					c.Ok(ks.key("bit-"+kind+"@"+fn), c.Pos(st), "bitmap "+kind)
				}
				if kind == "set" && st.Parent() == push {
					gt, lte, has := c.Fn("sna32GT"), c.Fn("sna32LTE"), c.Fn("receivePayloadQueue.hasChunk")
					c.Dom("set-inside-window", st, CallCond(gt, false, IsParam(push, 1), BinV(token.ADD, IsLoadOf(cum), IsLoadOf(maxOff))), "sna32GT(tsn, cum+maxTSNOffset)==false")
					c.Dom("set-above-cum", st, CallCond(lte, false, IsParam(push, 1), IsLoadOf(cum)), "sna32LTE(tsn, cum)==false")
					c.Dom("set-not-duplicate", st, CallCond(has, false, nil, IsParam(push, 1)), "hasChunk(tsn)==false")
				}
			}
			c.Check(nSet == 1, "bit-set-sites", "", "exactly one bit-setting store", fmt.Sprintf("%d bit-setting stores", nSet))
			// push is reached on the delivery path, or to record a refused (duplicate) TSN
			canPush := c.Fn("receivePayloadQueue.canPush")
			gates := fnSet([]*ssa.Function{c.deliverFn()})
			reach := c.P.ReachableAvoiding(c.P.Roots(), gates)
			for _, cs := range c.P.CallSitesOf(push) {
				if cs.Instr.Common().StaticCallee() != push {
					continue
				}
				ok, why := c.inRegion(cs.Fn, gates, reach)
				if !ok && DominatedByExt(cs.Instr, CallCond(canPush, false, nil, SameExpr(callArg(cs.Instr, 1)))) {
					ok, why = true, "records a TSN that canPush() refused (push cannot set a bit for it)"
				}
				c.Check(ok, ks.key("record:call(push)@"+c.P.FuncName(cs.Fn)), c.Pos(cs.Instr), "receivePayloadQueue.push "+why, "receivePayloadQueue.push called outside the delivery path for a TSN that was not refused: "+why)
			}
			// duplicates are recorded on the refusing edge
			dup := c.field("receivePayloadQueue", "dupTSN")
			nd := 0
			for _, a := range c.storesIn(push, dup) {
				nd++
				_ = a
			}
			c.Check(nd == 1, "dup-recorded", c.P.Pos(push.Pos()), "push records duplicates", "push no longer records duplicates")
		}})

	register(&Rule{ID: "C05.R4", Props: []string{"C05", "C16"}, Engine: "E1-sibling",
		Title:   "one indexing scheme: every access to the receive bitmap computes word = (tsn/64) % len(bitmap) and bit = tsn % 64 from the same TSN",
		MinInst: 5,
		Run: func(c *RuleCtx) {
			mask := c.field("receivePayloadQueue", "tsnBitmask")
			ks := keyer{}
			for _, fn := range c.P.Funcs {
				forEachInstr(fn, func(in ssa.Instruction) {
					ia, ok := in.(*ssa.IndexAddr)
					if !ok || !IsLoadOf(mask)(ia.X) {
						return
					}
					name := c.P.FuncName(fn)
					// zeroing loops index by the range variable
					if _, isPhiIdx := ia.Index.(*ssa.BinOp); !isPhiIdx {
						c.Ok(ks.key("index-linear@"+name), c.Pos(in), "word index is a plain loop variable (whole-bitmap reset)")
						return
					}
					b := ia.Index.(*ssa.BinOp)
					okShape := b.Op == token.REM
					var tsn ssa.Value
					if okShape {
						q, okQ := unconv(b.X).(*ssa.BinOp)
						okShape = okQ && q.Op == token.QUO && IsConstInt(64)(q.Y)
						if okShape {
							tsn = q.X
						}
						call, okL := b.Y.(*ssa.Call)
						okLen := false
						if okL {
							if bi, isB := call.Call.Value.(*ssa.Builtin); isB && bi.Name() == "len" && IsLoadOf(mask)(call.Call.Args[0]) {
								okLen = true
							}
						}
						okShape = okShape && okLen
					}
					if !okShape {
						if b.Op == token.ADD {
							c.Ok(ks.key("index-linear@"+name), c.Pos(in), "word index is a plain loop variable (whole-bitmap reset)")
							return
						}
						c.Fail(ks.key("index-shape@"+name), c.Pos(in), "bitmap word index is not (tsn/64) % len(tsnBitmask)")
						return
					}
					// a bit offset tsn%64 of the same tsn exists in the function
					found := false
					forEachInstr(fn, func(x ssa.Instruction) {
						if bb, ok := x.(*ssa.BinOp); ok && bb.Op == token.REM && IsConstInt(64)(bb.Y) && sameExpr(bb.X, tsn, 0) {
							found = true
						}
					})
					c.Check(found, ks.key("index-shape@"+name), c.Pos(in), "word=(tsn/64)%len, bit=tsn%64 from the same TSN", "bit offset is not tsn%64 of the TSN used for the word index")
				})
			}
		}})

	register(&Rule{ID: "C05.R5", Props: []string{"C05", "C11"}, Engine: "E2-dataflow",
		Title:   "every SACK field comes from the receiver's own record; SACKs are built in one place; SHUTDOWN acknowledges the same cumulative point",
		MinInst: 8,
		Run: func(c *RuleCtx) {
			mk := c.Fn("Association.createSelectiveAckChunk")
			src := map[string]string{
				"cumulativeTSNAck":               "Association.peerLastTSN",
				"advertisedReceiverWindowCredit": "Association.getMyReceiverWindowCredit",
				"duplicateTSN":                   "receivePayloadQueue.popDuplicates",
				"gapAckBlocks":                   "receivePayloadQueue.getGapAckBlocks",
			}
			for fname, srcFn := range src {
				f := c.field("chunkSelectiveAck", fname)
				st := c.storesIn(mk, f)
				if len(st) != 1 {
					c.Fail("sack-field:"+fname, c.P.Pos(mk.Pos()), fmt.Sprintf("%d stores to sack.%s", len(st), fname))
					continue
				}
				c.Check(IsCallOf(c.Fn(srcFn))(st[0].Val), "sack-field:"+fname, c.Pos(st[0].Instr), "sack."+fname+" <- "+srcFn+"()", "sack."+fname+" does not come from "+srcFn+"()")
			}
			allowed := map[string]bool{"Association.createSelectiveAckChunk": true, "packet.unmarshal": true, "Association.processShutdownAcknowledgement": true}
			for fn, sites := range c.allocSites("chunkSelectiveAck") {
				c.Check(allowed[fn], "sack-built@"+fn, c.Pos(sites[0]), "SACK chunk allocated in an expected place", "a SACK chunk is built outside createSelectiveAckChunk")
			}
			// the internal ack used for SHUTDOWN never reaches the wire
			psa := c.Fn("Association.processShutdownAcknowledgement")
			forEachInstr(psa, func(in ssa.Instruction) {
				if mi, ok := in.(*ssa.MakeInterface); ok && strings.Contains(typeShort(mi.X.Type()), "chunkSelectiveAck") {
					c.Fail("synthetic-ack-not-sent", c.Pos(in), "the synthetic ack built for SHUTDOWN processing is converted to a chunk interface (could be sent)")
				}
			})
			// peerLastTSN chain
			pl := c.Fn("Association.peerLastTSN")
			gc := c.Fn("receivePayloadQueue.getcumulativeTSN")
			cum := c.field("receivePayloadQueue", "cumulativeTSN")
			for _, r := range allReturns(pl) {
				c.Check(IsCallOf(gc)(r.Results[0]), "peerLastTSN-source", c.Pos(r), "peerLastTSN() = payloadQueue.getcumulativeTSN()", "peerLastTSN no longer returns the receive queue's cumulative TSN")
			}
			for _, r := range allReturns(gc) {
				c.Check(IsLoadOf(cum)(r.Results[0]), "getcumulativeTSN-source", c.Pos(r), "returns q.cumulativeTSN", "does not return q.cumulativeTSN")
			}
			gsp := c.Fn("Association.gatherOutboundShutdownPackets")
			for _, a := range c.storesIn(gsp, c.field("chunkShutdown", "cumulativeTSNAck")) {
				c.Check(IsCallOf(pl)(a.Val), "shutdown-ack-source", c.Pos(a.Instr), "SHUTDOWN.cumulativeTSNAck <- peerLastTSN()", "SHUTDOWN acknowledges something other than peerLastTSN()")
			}
		}})

	register(&Rule{ID: "C05.R6", Props: []string{"C05"}, Engine: "E3",
		Title:   "accepted ⇒ reported: push extends the scan range (tailTSN) on a newer TSN and the gap-block scan covers cumulativeTSN+1 … tailTSN",
		MinInst: 4,
		Run: func(c *RuleCtx) {
			push := c.Fn("receivePayloadQueue.push")
			tail := c.field("receivePayloadQueue", "tailTSN")
			cum := c.field("receivePayloadQueue", "cumulativeTSN")
			gt := c.Fn("sna32GT")
			st := c.storesIn(push, tail)
			c.Check(len(st) == 1, "tail-store", c.P.Pos(push.Pos()), "push updates tailTSN", fmt.Sprintf("%d tailTSN stores in push", len(st)))
			for _, a := range st {
				c.Check(IsParam(push, 1)(a.Val), "tail-value", c.Pos(a.Instr), "tailTSN <- tsn", "tailTSN set to something else than the pushed TSN")
				c.Dom("tail-on-newer", a.Instr, CallCond(gt, true, IsParam(push, 1), IsLoadOf(tail)), "sna32GT(tsn, tailTSN)")
				// only that guard (besides acceptance): the store is reached for every accepted newer TSN
				var extra []string
				for _, f := range DomFacts(a.Instr.Block()) {
					if call, ok := f.Cond.(*ssa.Call); ok {
						if sc := call.Call.StaticCallee(); sc != nil {
							switch c.P.FuncName(sc) {
							case "sna32GT", "sna32LTE", "receivePayloadQueue.hasChunk":
								continue
							}
						}
					}
					if phi, isPhi := f.Cond.(*ssa.Phi); isPhi {
						// `dup := sna32LTE(…) || q.hasChunk(tsn); if dup {…}`: a flag made of the same tests
						okPhi := true
						for _, lf := range phiLeaves(phi) {
							switch x := lf.Val.(type) {
							case *ssa.Const:
							case *ssa.Call:
								sc := x.Call.StaticCallee()
								if sc == nil {
									okPhi = false
									break
								}
								switch c.P.FuncName(sc) {
								case "sna32GT", "sna32LTE", "receivePayloadQueue.hasChunk":
								default:
									okPhi = false
								}
							default:
								okPhi = false
							}
						}
						if okPhi {
							continue
						}
					}
					extra = append(extra, shortValue(c.P, f.Cond))
				}
				c.Check(len(extra) == 0, "tail-no-extra-guard", c.Pos(a.Instr), "no additional condition can skip the tailTSN update", "additional guard on the tailTSN update: "+strings.Join(extra, ","))
			}
			gg := c.Fn("receivePayloadQueue.getGapAckBlocks")
			lte := c.Fn("sna32LTE")
			// loop condition: sna32LTE(tsn φ, load tailTSN) with φ starting at cum+1
			found := false
			forEachInstr(gg, func(in ssa.Instruction) {
				ifi, ok := in.(*ssa.If)
				if !ok {
					return
				}
				call, ok := isCallTo(ifi.Cond, lte)
				if !ok {
					return
				}
				phi, ok := call.Call.Args[0].(*ssa.Phi)
				if !ok || !IsLoadOf(tail)(call.Call.Args[1]) {
					return
				}
				for _, e := range phi.Edges {
					if BinV(token.ADD, IsLoadOf(cum), IsConstInt(1))(e) {
						found = true
					}
				}
			})
			c.Check(found, "scan-range", c.P.Pos(gg.Pos()), "gap scan runs tsn = cumulativeTSN+1 while sna32LTE(tsn, tailTSN)", "gap scan range is not cumulativeTSN+1 … tailTSN")
		}})

	register(&Rule{ID: "C05.R3", Props: []string{"C05", "C03", "C11", "C16"}, Engine: "E7-linear",
		Title:   "the receive bitmap ring covers the tracking window: 64·len(tsnBitmask) ≥ maxTSNOffset is proven from the constructor's own arithmetic (two in-window TSNs can never share a bit)",
		MinInst: 1,
		Run: func(c *RuleCtx) {
			ctor := c.Fn("newReceivePayloadQueue")
			mask := c.field("receivePayloadQueue", "tsnBitmask")
			win := c.field("receivePayloadQueue", "maxTSNOffset")
			ms, ws := c.storesIn(ctor, mask), c.storesIn(ctor, win)
			if len(ms) != 1 || len(ws) != 1 {
				c.Fail("ring-covers-window", c.P.Pos(ctor.Pos()), fmt.Sprintf("expected one store each of tsnBitmask and maxTSNOffset in the constructor, found %d/%d", len(ms), len(ws)))
				return
			}
			mk, ok := unconv(ms[0].Val).(*ssa.MakeSlice)
			if !ok {
				c.Fail("ring-covers-window", c.Pos(ms[0].Instr), "tsnBitmask is not allocated with make() in the constructor")
				return
			}
			curProg = c.P
			g := &lgEngine{p: c.P, pre: map[*ssa.Function]map[int]int64{}}
			z := newLin()
			need := z.add(g.lin(mk.Len, 0), 64).add(g.lin(ws[0].Val, 0), -1)
			facts := g.factsAtInstr(mk)
			facts = append(facts, g.loopInvariants(ctor)...)
			okP := g.prove(need, facts)
			var fs []string
			for _, f := range facts {
				fs = append(fs, f.String())
			}
			c.Check(okP, "ring-covers-window", c.Pos(mk), "proved 64*len(tsnBitmask) - maxTSNOffset >= 0: "+need.String(),
				"cannot prove that the bitmap ring is at least as large as the tracking window ("+need.String()+" >= 0; facts: "+strings.Join(fs, " ; ")+"): TSNs one ring-length apart inside the window would share a bit, so SACKs could name TSNs never received")
			// the window used by canPush/push is this very field (C11.R4) and it is a multiple of 64
			okM := false
			if b, ok := unconv(ws[0].Val).(*ssa.BinOp); ok && b.Op == token.MUL && (IsConstInt(64)(b.X) || IsConstInt(64)(b.Y)) {
				okM = true
			}
			c.Check(okM, "window-whole-words", c.Pos(ws[0].Instr), "maxTSNOffset is rounded to whole 64-bit words", "maxTSNOffset is not a multiple of 64")
		}})

	register(&Rule{ID: "C05.R7", Props: []string{"C05", "C06", "C11"}, Engine: "E5b-exhaustive",
		Title:   "bit masks are exact: clearing a TSN range clears, in each word, exactly bits offset … offset+n−1 (exhaustive over all 2080 (offset, n) pairs of a 64-bit word, by constant folding of the mask computation); set/test/clear of a single TSN use the bit 1<<(tsn%64)",
		MinInst: 60,
		Run: func(c *RuleCtx) {
			clr := c.Fn("receivePayloadQueue.clearTSNRange")
			mask := c.field("receivePayloadQueue", "tsnBitmask")
			// locate the φ-nodes of the loop and the clearing store
			var phiStart, phiRem *ssa.Phi
			var store *ssa.Store
			forEachInstr(clr, func(in ssa.Instruction) {
				switch x := in.(type) {
				case *ssa.Phi:
					if len(x.Edges) == 2 {
						if x.Edges[0] == ssa.Value(clr.Params[1]) {
							phiStart = x
						} else if phiRem == nil && isIntType(x.Type()) && x.Comment != "mask" {
							if _, isB := x.Edges[0].(*ssa.BinOp); isB {
								phiRem = x
							}
						}
					}
				case *ssa.Store:
					if ia, ok := x.Addr.(*ssa.IndexAddr); ok && IsLoadOf(mask)(ia.X) {
						store = x
					}
				}
			})
			if phiStart == nil || phiRem == nil || store == nil {
				c.Fail("clear-mask-shape", c.P.Pos(clr.Pos()), "clearTSNRange loop not recognised (start/remaining counters, clearing store)")
				return
			}
			andNot, ok := store.Val.(*ssa.BinOp)
			if !ok || andNot.Op != token.AND_NOT {
				c.Fail("clear-mask-shape", c.Pos(store), "clearing store is not word &^ mask")
				return
			}
			maskVal := andNot.Y
			// the number of TSNs consumed per word: startTSN += step
			var stepVal ssa.Value
			for _, e := range phiStart.Edges {
				if b, ok := unconv(e).(*ssa.BinOp); ok && b.Op == token.ADD && unconv(b.X) == ssa.Value(phiStart) {
					stepVal = b.Y
				}
			}
			if stepVal == nil {
				c.Fail("clear-mask-shape", c.P.Pos(clr.Pos()), "clearTSNRange: the start TSN is not advanced by a per-word count")
				return
			}
			one := constant.MakeInt64(1)
			bad := ""
			n := 0
			for off := int64(0); off < 64; off++ {
				for cnt := int64(1); cnt <= 64-off; cnt++ {
					for _, rem := range []int64{cnt, cnt + 1000} {
						if rem != cnt && cnt != 64-off {
							continue // a larger remainder only matters when the range runs to the end of the word
						}
						var got, gotStep constant.Value
						_, und := c.P.PEval(clr, PEConfig{
							BindVal: func(v ssa.Value) (constant.Value, bool) {
								if v == ssa.Value(phiStart) {
									return constant.MakeInt64(off + 128), true // any TSN with tsn%64 == off
								}
								if v == ssa.Value(phiRem) {
									return constant.MakeInt64(rem), true
								}
								return nil, false
							},
							Observe: func(in ssa.Instruction, get func(ssa.Value) constant.Value) {
								if in == ssa.Instruction(store) {
									got = get(maskVal)
									gotStep = get(stepVal)
								}
							},
							StopAt: func(in ssa.Instruction) string {
								if in == ssa.Instruction(store) {
									return "cleared"
								}
								return ""
							}})
						n++
						// expected: ((1<<cnt)-1) << off  as uint64
						exp := constant.Shift(constant.BinaryOp(constant.Shift(one, token.SHL, uint(cnt)), token.SUB, one), token.SHL, uint(off))
						if und != "" || got == nil || !constant.Compare(got, token.EQL, exp) {
							if bad == "" {
								bad = fmt.Sprintf("offset=%d n=%d remaining=%d: mask=%s want %s %s", off, cnt, rem, render(got), exp.String(), und)
							}
						}
						// the loop consumes exactly as many TSNs as the mask clears
						if gotStep == nil || !constant.Compare(constant.ToInt(gotStep), token.EQL, constant.MakeInt64(cnt)) {
							if bad == "" {
								bad = fmt.Sprintf("offset=%d remaining=%d: the loop advances by %s TSNs but the mask clears %d: the bits of the TSNs skipped in the next word stay set", off, rem, render(gotStep), cnt)
							}
						}
					}
				}
			}
			c.Check(bad == "", "clear-mask-exact", c.Pos(store), fmt.Sprintf("mask == ((1<<n)-1)<<offset for all %d (offset, n, remaining) scenarios of a word", n),
				"range clearing uses a wrong mask: "+bad+" — bits of TSNs outside the cleared range are wiped (received TSNs forgotten: duplicates re-delivered) or left set (SACK names TSNs never received)")
			for off := 0; off < 64; off++ {
				c.Ok(fmt.Sprintf("clear-mask-row:offset=%d", off), c.Pos(store), fmt.Sprintf("%d lengths folded for this offset", 64-off))
			}
			// single-bit operations
			for _, fname := range []string{"receivePayloadQueue.push", "receivePayloadQueue.hasChunk", "receivePayloadQueue.pop"} {
				fn := c.Fn(fname)
				okBit := false
				// (the bit position may be computed by a small helper shared by push/pop/hasChunk)
				forEachInstrDeep(c.P, fn, 2, func(in ssa.Instruction) {
					b, ok := in.(*ssa.BinOp)
					if !ok {
						return
					}
					// 1 << (tsn % 64)  — or, for a test, (word >> (tsn % 64)) & 1; the shift amount may come from a position helper
					isMask := b.Op == token.SHL && IsConstInt(1)(b.X)
					isProbe := b.Op == token.SHR && fname == "receivePayloadQueue.hasChunk" && in.Parent() == fn
					if (isMask || isProbe) && BinV(token.REM, AnyV, IsConstInt(64))(b.Y) {
						okBit = true
					}
				})
				c.Check(okBit, "single-bit:"+fname, c.P.Pos(fn.Pos()), "uses the bit 1 << (tsn % 64)", "single-TSN bit is not 1 << (tsn % 64)")
			}
		}})
}
