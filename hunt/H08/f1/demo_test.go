package sctp

import (
	"encoding/binary"
	"testing"

	"github.com/stretchr/testify/require"
)

// Finding 1 (C13): sendZeroChecksum is only ever switched ON by a Zero Checksum
// Acceptable parameter and is never cleared when a later INIT / INIT ACK (the one
// that actually defines the association) does not carry the parameter.

func zzF1InitCommon(tag, tsn uint32, zca bool) chunkInitCommon {
	c := chunkInitCommon{
		initiateTag:                    tag,
		initialTSN:                     tsn,
		numInboundStreams:              100,
		numOutboundStreams:             100,
		advertisedReceiverWindowCredit: 100000,
	}
	setSupportedExtensions(&c, false)
	if zca {
		c.params = append(c.params, &paramZeroChecksumAcceptable{edmid: dtlsErrorDetectionMethod})
	}

	return c
}

func zzF1Raw(t *testing.T, vtag uint32, c chunk) []byte {
	t.Helper()
	p := &packet{sourcePort: 5000, destinationPort: 5000, verificationTag: vtag, chunks: []chunk{c}}
	raw, err := p.marshal(true) // the fake peer always sends a correct CRC32c
	require.NoError(t, err)

	return raw
}

func zzF1RequireCRC(t *testing.T, what string, raw []byte) {
	t.Helper()
	theirs := binary.LittleEndian.Uint32(raw[8:])
	require.Equalf(t, generatePacketChecksum(raw), theirs,
		"%s was emitted with checksum field %#08x although the peer of this association never advertised "+
			"zero-checksum acceptance", what, theirs)
}

// Server side: INIT #1 (tag 111) advertises zero checksum, INIT #2 (tag 222, e.g. the
// peer restarted with the option off) does not. Everything negotiated from INIT #1 is
// overwritten by INIT #2 (tag, TSN, rwnd, extensions) - except sendZeroChecksum.
func TestZZHunt1_StickyZeroChecksum_Init(t *testing.T) {
	a := createTestAssociation(t, Config{})

	require.NoError(t, a.handleInbound(zzF1Raw(t, 0, &chunkInit{chunkInitCommon: zzF1InitCommon(111, 1000, true)})))
	out, _ := a.gatherOutbound()
	require.Len(t, out, 1) // INIT ACK #1, zero checksum is fine here

	require.NoError(t, a.handleInbound(zzF1Raw(t, 0, &chunkInit{chunkInitCommon: zzF1InitCommon(222, 2000, false)})))
	out, _ = a.gatherOutbound()
	require.Len(t, out, 1)

	initAck := &packet{}
	require.NoError(t, initAck.unmarshal(false, out[0]))
	require.Equal(t, uint32(222), initAck.verificationTag, "INIT ACK #2 answers INIT #2")
	var cookie []byte
	for _, p := range initAck.chunks[0].(*chunkInitAck).params { //nolint:forcetypeassert
		if c, ok := p.(*paramStateCookie); ok {
			cookie = c.cookie
		}
	}

	zzF1RequireCRC(t, "INIT ACK answering an INIT without Zero Checksum Acceptable", out[0])

	// (not reached on the unmodified code) finish the handshake and look at a SACK/DATA
	go func() { <-a.handshakeCompletedCh }()
	require.NoError(t, a.handleInbound(zzF1Raw(t, a.myVerificationTag, &chunkCookieEcho{cookie: cookie})))
	out, _ = a.gatherOutbound()
	require.Len(t, out, 1)
	zzF1RequireCRC(t, "COOKIE ACK", out[0])
}

// Client side: INIT ACK #1 carries Zero Checksum Acceptable but no State Cookie and is
// rejected (ErrInitAckNoCookie, the association stays in COOKIE-WAIT); the INIT ACK that
// is finally accepted does not advertise zero checksum. sendZeroChecksum was already set
// while processing the rejected INIT ACK (state changed before the validation failed).
func TestZZHunt1_StickyZeroChecksum_InitAck(t *testing.T) {
	a := createTestAssociation(t, Config{})

	// what initClient() does, without starting the read/write goroutines
	a.lock.Lock()
	init := &chunkInit{}
	init.initialTSN = a.myNextTSN
	init.numOutboundStreams = a.myMaxNumOutboundStreams
	init.numInboundStreams = a.myMaxNumInboundStreams
	init.initiateTag = a.myVerificationTag
	init.advertisedReceiverWindowCredit = a.maxReceiveBufferSize
	setSupportedExtensions(&init.chunkInitCommon, a.localInterleaving)
	a.storedInit = init
	require.NoError(t, a.sendInit())
	a.setState(cookieWait)
	a.lock.Unlock()

	out, _ := a.gatherOutbound()
	require.Len(t, out, 1) // INIT

	// INIT ACK #1: zero-checksum parameter, but the mandatory State Cookie is missing
	bad := &chunkInitAck{chunkInitCommon: zzF1InitCommon(777, 3000, true)}
	require.NoError(t, a.handleInbound(zzF1Raw(t, a.myVerificationTag, bad)))
	require.Equal(t, cookieWait, a.getState(), "INIT ACK without cookie must be rejected")

	// INIT ACK #2: valid, without Zero Checksum Acceptable
	good := &chunkInitAck{chunkInitCommon: zzF1InitCommon(888, 4000, false)}
	good.params = append(good.params, &paramStateCookie{cookie: []byte("0123456789abcdef0123456789abcdef")})
	require.NoError(t, a.handleInbound(zzF1Raw(t, a.myVerificationTag, good)))
	require.Equal(t, cookieEchoed, a.getState())

	out, _ = a.gatherOutbound()
	require.Len(t, out, 1) // COOKIE ECHO (always CRC32c)
	zzF1RequireCRC(t, "COOKIE ECHO", out[0])

	go func() { <-a.handshakeCompletedCh }()
	require.NoError(t, a.handleInbound(zzF1Raw(t, a.myVerificationTag, &chunkCookieAck{})))
	require.Equal(t, established, a.getState())
	require.Equal(t, uint32(888), a.peerVerificationTag)

	s, err := a.OpenStream(1, PayloadTypeWebRTCBinary)
	require.NoError(t, err)
	_, err = s.WriteSCTP([]byte("hello"), PayloadTypeWebRTCBinary)
	require.NoError(t, err)

	out, _ = a.gatherOutbound()
	require.NotEmpty(t, out)
	zzF1RequireCRC(t, "DATA packet", out[0])
}
