package main

import (
	"fmt"
	"go/types"

	"golang.org/x/tools/go/ssa"
)

// blockCanReach: b is reachable from a by one or more CFG edges.
func blockCanReach(a, b *ssa.BasicBlock) bool {
	seen := map[*ssa.BasicBlock]bool{}
	var st []*ssa.BasicBlock
	st = append(st, a.Succs...)
	for len(st) > 0 {
		x := st[len(st)-1]
		st = st[:len(st)-1]
		if seen[x] {
			continue
		}
		seen[x] = true
		if x == b {
			return true
		}
		st = append(st, x.Succs...)
	}
	return false
}

// instrMayFollow: b may execute after a.
func instrMayFollow(a, b ssa.Instruction) bool {
	if a.Block() == b.Block() && instrIndex(b) > instrIndex(a) {
		return true
	}
	return blockCanReach(a.Block(), b.Block())
}

func init() {
	register(&Rule{ID: "C01.R7", Props: []string{"C01", "C06"}, Engine: "E7-alias",
		Title:   "no view of a queue's backing array outlives an in-place compaction of that queue: where a function rewrites a slice field in place (append(f[:i], …) or copy(f[i:], f[j:])), no other sub-slice f[a:b] taken from the same field is used afterwards (the elements it names would have been shifted: a delivered message would be spliced from another message's fragments)",
		MinInst: 2,
		Run: func(c *RuleCtx) {
			ks := keyer{}
			n := 0
			for _, fn := range c.P.Funcs {
				// in-place rewrites of a slice-typed field
				type rewrite struct {
					in    ssa.Instruction
					f     *types.Var
					parts map[ssa.Value]bool
				}
				var rws []rewrite
				forEachInstr(fn, func(in ssa.Instruction) {
					call, ok := in.(*ssa.Call)
					if !ok {
						return
					}
					b, ok := call.Call.Value.(*ssa.Builtin)
					if !ok || len(call.Call.Args) < 2 {
						return
					}
					if b.Name() != "append" && b.Name() != "copy" {
						return
					}
					dst, ok := call.Call.Args[0].(*ssa.Slice)
					if !ok {
						return
					}
					f, _ := loadedField(dst.X)
					if f == nil {
						return
					}
					if _, isSlice := f.Type().Underlying().(*types.Slice); !isSlice {
						return
					}
					rws = append(rws, rewrite{in, f, map[ssa.Value]bool{call.Call.Args[0]: true, call.Call.Args[1]: true}})
				})
				for _, rw := range rws {
					n++
					bad := ""
					forEachInstr(fn, func(in ssa.Instruction) {
						sl, ok := in.(*ssa.Slice)
						if !ok || rw.parts[sl] {
							return
						}
						if f, _ := loadedField(sl.X); f != rw.f {
							return
						}
						if !instrMayFollow(sl, rw.in) {
							return // view taken after the rewrite: names the new contents
						}
						for _, u := range *sl.Referrers() {
							if _, dbg := u.(*ssa.DebugRef); dbg {
								continue
							}
							if u != rw.in && instrMayFollow(rw.in, u) {
								bad = fmt.Sprintf("view %s.%s[…] taken at %s is still used at %s after the in-place rewrite", "", rw.f.Name(), c.Pos(sl), c.Pos(u))
							}
						}
					})
					c.Check(bad == "", ks.key("no-stale-view:"+c.P.FuncName(fn)+"."+rw.f.Name()), c.Pos(rw.in), "no earlier sub-slice of "+rw.f.Name()+" is used after its in-place rewrite", bad)
				}
			}
			c.Check(n >= 1, "rewrite-sites", "", fmt.Sprintf("%d in-place rewrite site(s) analysed", n), "no in-place rewrite found (anchor lost)")
		}})
}
