package sctp

import (
	"errors"
	"os"
	"sync/atomic"
	"testing"
	"time"

	"github.com/pion/logging"
	"github.com/stretchr/testify/require"
)

// hunt4Logger lets the test hold a goroutine inside Stream.handleData (which
// logs while holding Stream.lock), i.e. it produces ordinary lock contention
// on Stream.lock at a moment chosen by the test.
type hunt4Logger struct {
	armed   *int32
	entered chan struct{}
	release chan struct{}
}

func (l *hunt4Logger) Trace(string)          {}
func (l *hunt4Logger) Tracef(string, ...any) {}
func (l *hunt4Logger) Debug(string)          {}
func (l *hunt4Logger) Debugf(format string, _ ...any) {
	if format == "[%s] reassemblyQueue readable=%v" && atomic.CompareAndSwapInt32(l.armed, 1, 0) {
		close(l.entered)
		<-l.release
	}
}
func (l *hunt4Logger) Info(string)           {}
func (l *hunt4Logger) Infof(string, ...any)  {}
func (l *hunt4Logger) Warn(string)           {}
func (l *hunt4Logger) Warnf(string, ...any)  {}
func (l *hunt4Logger) Error(string)          {}
func (l *hunt4Logger) Errorf(string, ...any) {}

func (l *hunt4Logger) NewLogger(string) logging.LeveledLogger { return l }

// C18: "a read deadline makes a blocked read return at the deadline".
// The deadline is extended (SetReadDeadline(+1h)) *before* the old deadline
// expires, but the call has to wait for Stream.lock. The timer goroutine of the
// old deadline fires meanwhile, passes its "cancelled?" check and also queues on
// Stream.lock. When it finally gets the lock it does not re-check and installs
// ErrReadDeadlineExceeded, so reads fail ~1h before the deadline in force.
func TestHunt4StaleReadDeadlineTimerOverridesNewDeadline(t *testing.T) {
	var armed int32
	lg := &hunt4Logger{armed: &armed, entered: make(chan struct{}), release: make(chan struct{})}

	conn1, conn2 := createUDPConnPair()
	type res struct {
		a   *Association
		err error
	}
	c1, c2 := make(chan res, 1), make(chan res, 1)
	go func() {
		a, err := Client(Config{NetConn: conn1, LoggerFactory: logging.NewDefaultLoggerFactory()})
		c1 <- res{a, err}
	}()
	go func() {
		a, err := Client(Config{NetConn: conn2, LoggerFactory: lg})
		c2 <- res{a, err}
	}()
	r1, r2 := <-c1, <-c2
	require.NoError(t, r1.err)
	require.NoError(t, r2.err)
	a1, a2 := r1.a, r2.a
	defer func() { _ = a2.Close() }()
	defer func() { _ = a1.Close() }()

	s1, err := a1.OpenStream(1, PayloadTypeWebRTCBinary)
	require.NoError(t, err)
	_, err = s1.Write([]byte("hello"))
	require.NoError(t, err)
	s2, err := a2.AcceptStream()
	require.NoError(t, err)
	buf := make([]byte, 64)
	n, err := s2.Read(buf)
	require.NoError(t, err)
	require.Equal(t, "hello", string(buf[:n]))

	// Old deadline: 300ms from now.
	t0 := time.Now()
	require.NoError(t, s2.SetReadDeadline(t0.Add(300*time.Millisecond)))

	// A DATA chunk arrives; its handler is inside Stream.handleData holding Stream.lock.
	atomic.StoreInt32(&armed, 1)
	_, err = s1.Write([]byte("x"))
	require.NoError(t, err)
	select {
	case <-lg.entered:
	case <-time.After(2 * time.Second):
		require.FailNow(t, "setup: handleData not reached")
	}
	require.Less(t, time.Since(t0), 150*time.Millisecond, "setup too slow")

	// The user extends the deadline well before the old one expires.
	extended := make(chan error, 1)
	go func() { extended <- s2.SetReadDeadline(time.Now().Add(time.Hour)) }()

	// The old deadline passes while Stream.lock is still busy.
	time.Sleep(time.Until(t0.Add(450 * time.Millisecond)))
	close(lg.release)
	require.NoError(t, <-extended)
	time.Sleep(100 * time.Millisecond)

	// The message that arrived is readable ...
	n, err = s2.Read(buf)
	require.NoError(t, err)
	require.Equal(t, "x", string(buf[:n]))

	// ... and the next read must block until data arrives or the (1h) deadline.
	type rr struct {
		n   int
		err error
	}
	done := make(chan rr, 1)
	go func() {
		n2, err2 := s2.Read(buf)
		done <- rr{n2, err2}
	}()
	select {
	case r := <-done:
		require.Falsef(t, errors.Is(r.err, os.ErrDeadlineExceeded),
			"read returned %v although the read deadline in force is one hour away", r.err)
		require.FailNowf(t, "unexpected read result", "n=%d err=%v", r.n, r.err)
	case <-time.After(1 * time.Second):
		// expected: still blocked. Unblock it for cleanup.
		require.NoError(t, s2.SetReadDeadline(time.Now()))
		<-done
	}
}
