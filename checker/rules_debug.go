package main

import (
	"fmt"
	"os"

	"golang.org/x/tools/go/ssa"
)

func init() {
	register(&Rule{ID: "C00.R0", Props: []string{"C00"}, Title: "debug", MinInst: 0, Run: func(c *RuleCtx) {
		if os.Getenv("VERIF_DEBUG") == "" {
			c.Ok("debug", "", "off")
			return
		}
		for _, f := range []string{"ordered", "unordered", "unorderedChunks", "orderedMID", "unorderedMID", "orderedMIDMap", "unorderedMIDMap", "nBytes"} {
			fv := c.field("reassemblyQueue", f)
			for _, a := range c.P.Accesses(fv) {
				if a.Kind == AccRead {
					// map update / delete through a read
					v := a.Instr.(ssa.Value)
					for _, r := range *v.Referrers() {
						switch x := r.(type) {
						case *ssa.MapUpdate:
							fmt.Printf("%-16s %-45s %s mapupdate\n", f, c.P.FuncName(a.Fn), c.Pos(x))
						case ssa.CallInstruction:
							if b, ok := x.Common().Value.(*ssa.Builtin); ok && b.Name() == "delete" {
								fmt.Printf("%-16s %-45s %s delete\n", f, c.P.FuncName(a.Fn), c.Pos(x))
							}
						}
					}
					continue
				}
				fmt.Printf("%-16s %-45s %s %s\n", f, c.P.FuncName(a.Fn), c.Pos(a.Instr), a.Kind)
			}
		}
		for _, tf := range [][2]string{{"chunkSet", "chunks"}, {"chunkSetMID", "chunks"}} {
			for _, a := range c.P.Writes(c.field(tf[0], tf[1])) {
				fmt.Printf("%-16s %-45s %s %s\n", tf[0]+"."+tf[1], c.P.FuncName(a.Fn), c.Pos(a.Instr), a.Kind)
			}
		}
		c.Ok("debug", "", "dumped")
	}})
}
