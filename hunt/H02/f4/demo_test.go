package sctp

import (
	"testing"
	"time"

	"github.com/pion/transport/v4/test"
	"github.com/stretchr/testify/assert"
	"github.com/stretchr/testify/require"
)

// C06: every message handed to the reader is one of the messages written on
// that stream WITH ITS IDENTIFIER (payload protocol identifier). A stream opened
// with OpenStream(si, PayloadTypeWebRTCBinary) and written with Write() labels
// its messages with that PPI -- until any DATA arrives on the stream: the
// receive path resets the stream's default PPI to 0, and later messages are
// delivered with a PPI the writer never used.
func TestHunt4InboundDataClobbersDefaultPPI(t *testing.T) {
	lim := test.TimeOut(time.Second * 20)
	defer lim.Stop()

	const si uint16 = 1
	br := test.NewBridge()

	a0, a1, err := createNewAssociationPair(br, ackModeNoDelay, 0)
	require.NoError(t, err)

	s0, s1, err := establishSessionPair(br, a0, a1, si) // s0 = OpenStream(si, PayloadTypeWebRTCBinary)
	require.NoError(t, err)

	buf := make([]byte, 64)

	// 1) Write() uses the PPI given to OpenStream.
	_, err = s0.Write([]byte("one"))
	require.NoError(t, err)
	flushBuffers(br, a0, a1)
	n, ppi, err := s1.ReadSCTP(buf)
	require.NoError(t, err)
	require.Equal(t, "one", string(buf[:n]))
	require.Equal(t, PayloadTypeWebRTCBinary, ppi)

	// 2) The peer sends something on the same stream.
	_, err = s1.WriteSCTP([]byte("reply"), PayloadTypeWebRTCString)
	require.NoError(t, err)
	flushBuffers(br, a0, a1)
	n, _, err = s0.ReadSCTP(buf)
	require.NoError(t, err)
	require.Equal(t, "reply", string(buf[:n]))

	// 3) Same call as in (1): the message must still carry the stream's PPI.
	_, err = s0.Write([]byte("two"))
	require.NoError(t, err)
	flushBuffers(br, a0, a1)
	n, ppi, err = s1.ReadSCTP(buf)
	require.NoError(t, err)
	require.Equal(t, "two", string(buf[:n]))
	assert.Equal(t, PayloadTypeWebRTCBinary, ppi,
		"message written with Write() on a stream opened with PayloadTypeWebRTCBinary was delivered with another PPI")

	closeAssociationPair(br, a0, a1)
}
