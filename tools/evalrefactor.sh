#!/bin/bash
# usage: evalrefactor.sh <dir containing patch.diff> [--skip-suite]
# Behaviour-preserving refactoring: scratch copy, apply, build, full suite (must pass), then ANALYSE with every check.
# Any VIOLATION/UNRESOLVED printed here is a false alarm of the machinery.
set -u
R=$(readlink -f "$1"); SKIP=${2:-}
export GOFLAGS=-mod=mod GOPROXY=off
S=$(mktemp -d /tmp/refeval.XXXXXX)
trap 'rm -rf $S' EXIT
rsync -a --exclude .git /repo/ $S/
cd $S
O="refactor=$R"
if ! patch -p1 -s < $R/patch.diff; then echo "$O APPLY=fail"; exit 2; fi
if ! go build ./... 2>$S/build.err; then echo "$O BUILD=fail"; head -5 $S/build.err; exit 2; fi
O="$O build=ok"
if [ "$SKIP" != "--skip-suite" ]; then
  if go test -count=1 -timeout 20m . > $S/suite.log 2>&1; then O="$O suite=pass"; else O="$O suite=FAIL"; grep -E "^(--- FAIL|FAIL)" $S/suite.log | head -5; fi
fi
/verif/bin/sctpverif all --repo $S --no-evidence > $S/check.log 2>&1
N=$(grep -cE "^(VIOLATION|UNRESOLVED) +C" $S/check.log)
echo "$O alarms=$N"
grep -E "^(VIOLATION|UNRESOLVED) +C" $S/check.log | sort -u | cut -c1-300 | head -12
