package sctp

import (
	"context"
	"testing"
	"time"

	"github.com/pion/transport/v4/test"
	"github.com/stretchr/testify/require"
)

// C08: "shutdowns started by both sides at once complete as well".
//
// a0 calls Shutdown(); its SHUTDOWN chunk reaches a1 a moment before a1's
// application calls Shutdown() too (a1 is then in SHUTDOWN-ACK-SENT, its
// SHUTDOWN ACK still on the wire). a1.Shutdown() must wait for the sequence
// to complete and report success; instead it fails at once with
// ErrShutdownNonEstablished although the association then goes on to
// complete the graceful shutdown by itself.
func TestZZHuntShutdownCalledAfterPeerShutdownArrived(t *testing.T) {
	br := test.NewBridge()
	a0, a1, err := createNewAssociationPair(br, ackModeNoDelay, 0)
	require.NoError(t, err)
	defer closeAssociationPair(br, a0, a1)

	_, _, err = establishSessionPair(br, a0, a1, 1)
	require.NoError(t, err)

	ctx, cancel := context.WithTimeout(context.Background(), 5*time.Second)
	defer cancel()

	res0 := make(chan error, 1)
	go func() { res0 <- a0.Shutdown(ctx) }()

	// Deliver a0's SHUTDOWN to a1, but nothing from a1 to a0 yet: hand over
	// packets one tick at a time and stop as soon as a1 has processed it.
	deadline := time.Now().Add(3 * time.Second)
	for a1.getState() != shutdownAckSent && time.Now().Before(deadline) {
		br.Tick()
		time.Sleep(time.Millisecond)
	}
	require.Equal(t, shutdownAckSent, a1.getState(), "a1 should be in SHUTDOWN-ACK-SENT")
	require.NotEqual(t, closed, a0.getState(), "a0 still waits for the SHUTDOWN ACK")

	// The application of a1 starts its own shutdown now.
	res1 := make(chan error, 1)
	go func() { res1 <- a1.Shutdown(ctx) }()

	// Let the network run until both calls returned.
	var err0, err1 error
	got0, got1 := false, false
	for !(got0 && got1) {
		br.Tick()
		select {
		case err0 = <-res0:
			got0 = true
		case err1 = <-res1:
			got1 = true
		case <-time.After(time.Millisecond):
		}
		if ctx.Err() != nil && !(got0 && got1) {
			time.Sleep(50 * time.Millisecond)
		}
	}
	// give a1 the time to see SHUTDOWN COMPLETE
	for i := 0; i < 200 && a1.getState() != closed; i++ {
		br.Tick()
		time.Sleep(time.Millisecond)
	}

	a1.lock.RLock()
	completed1 := a1.shutdownCompleted
	a1.lock.RUnlock()
	t.Logf("a0.Shutdown() = %v; a1.Shutdown() = %v; a1 state=%s shutdownCompleted=%v",
		err0, err1, getAssociationStateString(a1.getState()), completed1)

	require.NoError(t, err0, "a0.Shutdown")
	require.Equal(t, closed, a1.getState(), "a1 closes gracefully")
	require.True(t, completed1, "a1 saw the whole shutdown sequence")
	require.NoError(t, err1,
		"a1.Shutdown() called while the peer's shutdown is in progress must complete, not fail")
}
