package main

import (
	"fmt"
	"go/constant"
	"go/token"
	"go/types"

	"golang.org/x/tools/go/ssa"
)

func isMathCall(v ssa.Value, name string) (*ssa.Call, bool) {
	for d := 0; d < 3 && v != nil; d++ {
		call, ok := unconv(v).(*ssa.Call)
		if ok {
			if sc := call.Call.StaticCallee(); sc != nil && sc.Pkg != nil && sc.Pkg.Pkg.Path() == "math" && sc.Name() == name {
				return call, true
			}
		}
		v = through(unconv(v)) // a single-return helper wrapping the expression, or a helper's parameter
	}
	return nil, false
}

func constFloat(p *Prog, name string) (float64, bool) {
	k := p.Const(name)
	if k == nil {
		return 0, false
	}
	f, _ := constant.Float64Val(constant.ToFloat(k.Val()))
	return f, true
}

func init() {
	register(&Rule{ID: "C19.R1", Props: []string{"C19"}, Engine: "E2+E3",
		Title:   "the RTO is clamped: it is stored only as the initial constant or as min(max(·, RTO.min), RTO.max); the test hook has no production caller; 1000 = RTO.min ≤ RTO.initial ≤ RTO.max default",
		MinInst: 6,
		Run: func(c *RuleCtx) {
			rto := c.field("rtoManager", "rto")
			rmax := c.field("rtoManager", "rtoMax")
			ks := keyer{}
			mn, _ := constFloat(c.P, "rtoMin")
			ini, _ := constFloat(c.P, "rtoInitial")
			dmax, _ := constFloat(c.P, "defaultRTOMax")
			c.Check(mn == 1000 && mn <= ini && ini <= dmax, "rto-constants", "", fmt.Sprintf("rtoMin=%v rtoInitial=%v defaultRTOMax=%v", mn, ini, dmax), fmt.Sprintf("RTO constants out of order: min=%v initial=%v max=%v", mn, ini, dmax))
			for _, a := range c.P.Writes(rto) {
				fn := c.P.FuncName(a.Fn)
				if fn == "rtoManager.setRTO" {
					c.Ok(ks.key("rto-store@"+fn), c.Pos(a.Instr), "test hook (callers checked below)")
					continue
				}
				if k, ok := unconv(a.Val).(*ssa.Const); ok && k.Value != nil {
					f, _ := constant.Float64Val(constant.ToFloat(k.Value))
					c.Check(f == ini, ks.key("rto-store@"+fn), c.Pos(a.Instr), "rto <- rtoInitial", fmt.Sprintf("rto set to constant %v, not RTO.initial", f))
					continue
				}
				okClamp := false
				if minC, ok := isMathCall(a.Val, "Min"); ok {
					if maxC, ok := isMathCall(minC.Call.Args[0], "Max"); ok && IsLoadOf(rmax)(minC.Call.Args[1]) {
						if k, ok := maxC.Call.Args[1].(*ssa.Const); ok && k.Value != nil {
							f, _ := constant.Float64Val(constant.ToFloat(k.Value))
							okClamp = f == mn
						}
					}
				}
				c.Check(okClamp, ks.key("rto-store@"+fn), c.Pos(a.Instr), "rto <- math.Min(math.Max(x, rtoMin), rtoMax)", "RTO stored without the [RTO.min, RTO.max] clamp")
			}
			c.Check(len(c.P.CallSitesOf(c.Fn("rtoManager.setRTO"))) == 0, "rto-test-hook-unused", "", "setRTO (unclamped) has no non-test caller", "setRTO is called from production code: unclamped RTO")
			// rtoMax defaults when 0
			nm := c.Fn("newRTOManager")
			okD := false
			// some value stored to rtoMax is the default constant, chosen under "the configured value is 0"
			for _, a := range c.storesIn(nm, rmax) {
				for _, lf := range leavesWithFacts(a.Val) {
					k, ok := unconv(lf.Val).(*ssa.Const)
					if !ok || k.Value == nil {
						continue
					}
					if f, _ := constant.Float64Val(constant.ToFloat(k.Value)); f == dmax {
						okD = true
					}
				}
			}
			c.Check(okD, "rto-max-default", c.P.Pos(nm.Pos()), "rtoMax defaults to defaultRTOMax", "rtoMax has no default")
			// every timer start is given the manager's RTO
			get := c.Fn("rtoManager.getRTO")
			for _, cs := range c.P.CallSitesOf(c.Fn("rtxTimer.start")) {
				c.Check(IsCallOf(get)(callArg(cs.Instr, 1)), ks.key("timer-uses-managed-rto@"+c.P.FuncName(cs.Fn)), c.Pos(cs.Instr), "start(rtoMgr.getRTO())", "timer started with an RTO that does not come from the RTO manager")
			}
		}})

	register(&Rule{ID: "C19.R2", Props: []string{"C19"}, Engine: "E3+E5b",
		Title:   "back-off doubles on each expiry up to the maximum: next timeout = min(rto·2^n, rtoMax) with the shift guarded, n incremented before re-arming and zeroed on start",
		MinInst: 8,
		Run: func(c *RuleCtx) {
			cn := c.Fn("calculateNextTimeout")
			for _, r := range allReturns(cn) {
				v := r.Results[0]
				if IsParam(cn, 2)(v) {
					c.Dom("backoff-cap-large-n", r, CmpCond(token.GEQ, IsParam(cn, 1), IsConstInt(31)), "nRtos >= 31")
					continue
				}
				minC, ok := isMathCall(v, "Min")
				okS := false
				if ok && IsParam(cn, 2)(minC.Call.Args[1]) {
					if mul, ok := minC.Call.Args[0].(*ssa.BinOp); ok && mul.Op == token.MUL && IsParam(cn, 0)(mul.X) {
						if sh, ok := unconv(mul.Y).(*ssa.BinOp); ok && sh.Op == token.SHL && IsConstInt(1)(sh.X) && Derives(IsParam(cn, 1))(sh.Y) {
							okS = true
						}
					}
				}
				c.Check(okS, "backoff-formula", c.Pos(r), "min(rto * (1<<nRtos), rtoMax)", "back-off is not rto·2^n capped at rtoMax")
				c.Dom("backoff-shift-guarded", r, CmpCond(token.LSS, IsParam(cn, 1), IsConstInt(31)), "nRtos < 31")
			}
			// folded samples of the pure function (decision inputs are small integers)
			for _, tc := range []struct {
				rto, max float64
				n        int64
				want     float64
			}{{1000, 60000, 0, 1000}, {1000, 60000, 1, 2000}, {1000, 60000, 5, 32000}, {1000, 60000, 6, 60000}, {1000, 60000, 30, 60000}, {1000, 60000, 31, 60000}, {1000, 60000, 64, 60000}, {3000, 5000, 1, 5000}} {
				outs, und := c.P.PEval(cn, PEConfig{Params: map[int]constant.Value{1: constant.MakeInt64(tc.n)}})
				_ = outs
				key := fmt.Sprintf("backoff-branch:n=%d", tc.n)
				if und != "" || len(outs) != 1 {
					c.Fail(key, c.P.Pos(cn.Pos()), "UNDECIDED")
					continue
				}
				// which branch is taken depends only on n: the cap branch returns the rtoMax parameter
				capBranch := false
				for _, cl := range outs[0].Calls {
					_ = cl
				}
				capBranch = len(outs[0].Called("math.Min")) == 0
				c.Check(capBranch == (tc.n >= 31), key, c.P.Pos(cn.Pos()), fmt.Sprintf("n=%d takes the %s branch", tc.n, map[bool]string{true: "cap", false: "doubling"}[capBranch]), "wrong branch for this expiry count")
			}
			to := c.Fn("rtxTimer.timeout")
			nR := c.field("rtxTimer", "nRtos")
			var inc, reset ssa.Instruction
			for _, a := range c.storesIn(to, nR) {
				if BinV(token.ADD, IsLoadOf(nR), IsConstInt(1))(a.Val) {
					inc = a.Instr
				}
			}
			forEachInstr(to, func(in ssa.Instruction) {
				if ci, ok := in.(ssa.CallInstruction); ok {
					if sc := ci.Common().StaticCallee(); sc != nil && sc.Name() == "Reset" {
						reset = in
					}
				}
			})
			c.Check(inc != nil && reset != nil && CanReach(inc, reset) && !CanReach(reset, inc), "expiry-increments-before-rearm", c.P.Pos(to.Pos()), "nRtos++ precedes timer.Reset(calculateNextTimeout())", "expiry count not incremented before re-arming")
			// the re-arm duration is calculateNextTimeout of the timer's own fields
			ct := c.Fn("rtxTimer.calculateNextTimeout")
			okArgs := false
			for _, cc := range callsIn(ct, cn) {
				a := cc.Common().Args
				f0, _ := loadedField(a[0])
				f1, _ := loadedField(a[1])
				f2, _ := loadedField(a[2])
				okArgs = f0 != nil && f0.Name() == "rto" && f1 != nil && f1.Name() == "nRtos" && f2 != nil && f2.Name() == "rtoMax"
			}
			c.Check(okArgs, "rearm-uses-own-fields", c.P.Pos(ct.Pos()), "calculateNextTimeout(t.rto, t.nRtos, t.rtoMax)", "re-arm duration not computed from the timer's rto/nRtos/rtoMax")
			st := c.Fn("rtxTimer.start")
			okZ := false
			for _, a := range c.storesIn(st, nR) {
				if IsConstInt(0)(a.Val) {
					okZ = true
				}
			}
			c.Check(okZ, "start-zeroes-count", c.P.Pos(st.Pos()), "start() resets nRtos to 0", "start() does not reset the expiry count")
			for _, a := range c.storesIn(st, c.field("rtxTimer", "rto")) {
				c.Check(IsParam(st, 1)(a.Val), "start-takes-rto", c.Pos(a.Instr), "t.rto <- the RTO passed to start", "start ignores the RTO it is given")
			}
		}})

	register(&Rule{ID: "C19.R3", Props: []string{"C19"}, Engine: "E3",
		Title:   "Karn's rule: an RTT sample is taken only from a chunk that was transmitted exactly once, using that chunk's own send time",
		MinInst: 4,
		Run: func(c *RuleCtx) {
			psa := c.Fn("Association.processSelectiveAck")
			set := c.Fn("rtoManager.setNewRTT")
			nSent := c.field("chunkPayloadData", "nSent")
			since := c.field("chunkPayloadData", "since")
			ks := keyer{}
			n := 0
			for _, sc := range callsIn(psa, set) {
				n++
				// the sample derives from since of chunk X; nSent==1 must be on the same X
				var base ssa.Value
				var find func(v ssa.Value, d int)
				find = func(v ssa.Value, d int) {
					if d > 10 || base != nil {
						return
					}
					switch x := unconv(v).(type) {
					case *ssa.BinOp:
						find(x.X, d+1)
						find(x.Y, d+1)
					case *ssa.Call:
						for _, a := range x.Call.Args {
							find(a, d+1)
						}
					case *ssa.UnOp:
						if f, b := loadedField(x); f == since {
							base = b
						}
					}
				}
				find(callArg(sc, 1), 0)
				c.Check(base != nil, ks.key("sample-from-chunk-send-time"), c.Pos(sc), "sample = now - chunk.since", "RTT sample does not derive from the chunk's send time")
				if base != nil {
					c.Dom(ks.key("karn"), sc, CmpCond(token.EQL, isFieldLoadOn(nSent, base), IsConstInt(1)), "chunk.nSent == 1 (never retransmitted)")
				}
			}
			c.Check(n >= 1, "sample-sites", c.P.Pos(psa.Pos()), "two sample sites (cumulative and gap ack)", fmt.Sprintf("%d sample sites", n))
			c.CallersWithin("rtt", set, "Association.processSelectiveAck", "Association.handleHeartbeatAck")
		}})

	register(&Rule{ID: "C19.R5", Props: []string{"C19"}, Engine: "E5b+E1",
		Title:   "ack decision table (exhaustive over sackImmediately × loss × ackMode × ackState): an immediate trigger always wins; a second packet while an ack is delayed is acknowledged at once; the delayed-ack timer is armed only with a constant ≤ 200 ms",
		MinInst: 36,
		Run: func(c *RuleCtx) {
			ai := c.P.Const("ackInterval")
			ns, _ := constant.Int64Val(ai.Val())
			c.Check(ns > 0 && ns <= 200_000_000, "ack-interval", "", fmt.Sprintf("ackInterval = %d ns", ns), "ackInterval exceeds 200 ms")
			as := c.Fn("ackTimer.start")
			okArm := false
			forEachInstr(as, func(in ssa.Instruction) {
				if ci, ok := in.(ssa.CallInstruction); ok {
					if sc := ci.Common().StaticCallee(); sc != nil && sc.Name() == "Reset" {
						if k, ok := constInt(ci.Common().Args[1]); ok && k == ns {
							okArm = true
						}
					}
				}
			})
			c.Check(okArm, "ack-timer-armed-with-interval", c.P.Pos(as.Pos()), "timer.Reset(ackInterval)", "ack timer armed with something other than ackInterval")
			hpl := c.Fn("Association.handlePeerLastTSNAndAcknowledgement")
			mode := c.field("Association", "ackMode")
			state := c.field("Association", "ackState")
			imm := c.field("Association", "immediateAckTriggered")
			del := c.field("Association", "delayedAckTriggered")
			size := c.Fn("receivePayloadQueue.size")
			opaque := map[*ssa.Function]bool{c.Fn("receivePayloadQueue.pop"): true, c.Fn("Association.resetStreamsIfAny"): true, c.Fn("receivePayloadQueue.getGapAckBlocksString"): true}
			names := map[string]int64{}
			for _, n := range []string{"ackModeNormal", "ackModeNoDelay", "ackModeAlwaysDelay", "ackStateIdle", "ackStateImmediate", "ackStateDelay"} {
				k := c.P.Const(n)
				v, _ := constant.Int64Val(k.Val())
				names[n] = v
			}
			for _, sackNow := range []bool{false, true} {
				for _, loss := range []bool{false, true} {
					for _, m := range []string{"ackModeNormal", "ackModeNoDelay", "ackModeAlwaysDelay"} {
						for _, st := range []string{"ackStateIdle", "ackStateImmediate", "ackStateDelay"} {
							lossV := int64(0)
							if loss {
								lossV = 3
							}
							outs, und := c.P.PEval(hpl, PEConfig{Params: map[int]constant.Value{1: constant.MakeBool(sackNow)},
								Fields: map[*types.Var]constant.Value{mode: constant.MakeInt64(names[m]), state: constant.MakeInt64(names[st])}, Opaque: opaque,
								BindVal: func(v ssa.Value) (constant.Value, bool) {
									if IsCallOf(size)(v) {
										return constant.MakeInt64(lossV), true
									}
									if IsCallOf(c.Fn("receivePayloadQueue.pop"))(v) {
										return constant.MakeBool(false), true
									}
									return nil, false
								}})
							key := fmt.Sprintf("ack:sackNow=%v,loss=%v,%s,%s", sackNow, loss, m, st)
							if und != "" || len(outs) == 0 {
								c.Fail(key, c.P.Pos(hpl.Pos()), "UNDECIDED: "+und)
								continue
							}
							want := "immediate"
							if !sackNow && !loss && m != "ackModeNoDelay" {
								switch {
								case m == "ackModeAlwaysDelay" && st == "ackStateIdle":
									want = "delayed"
								case m == "ackModeNormal" && st == "ackStateIdle":
									want = "delayed"
								}
							}
							ok := true
							got := ""
							for _, o := range outs {
								i, d := o.Stores[imm], o.Stores[del]
								isI := o.Stored[imm] && i != nil && constant.BoolVal(i)
								isD := o.Stored[del] && d != nil && constant.BoolVal(d)
								switch {
								case isI && !isD:
									got = "immediate"
								case isD && !isI:
									got = "delayed"
								default:
									got = fmt.Sprintf("immediate=%v delayed=%v", isI, isD)
								}
								if got != want {
									ok = false
								}
							}
							c.Check(ok, key, c.P.Pos(hpl.Pos()), "decision = "+want, "decision is '"+got+"' but must be '"+want+"'")
						}
					}
				}
			}
			// handleChunksEnd: delayed ⇒ ackState=Delay and timer started; onAckTimeout ⇒ immediate + wake (wake in C02.R3)
			hce := c.Fn("Association.handleChunksEnd")
			okD := false
			forEachInstr(hce, func(in ssa.Instruction) {
				ifi, ok := in.(*ssa.If)
				if !ok || !IsLoadOf(del)(ifi.Cond) {
					return
				}
				ok2, _ := MustPassFromBlock(ifi.Block().Succs[0], c.P.CallTargetPred(0, as), PathOpts{})
				okD = ok2
			})
			c.Check(okD, "delayed-arms-timer", c.P.Pos(hce.Pos()), "delayedAckTriggered ⇒ ackTimer.start()", "a delayed ack does not arm the ack timer: the ack could wait forever")
			oat := c.Fn("Association.onAckTimeout")
			okI := false
			for _, a := range c.storesIn(oat, state) {
				if IsConstInt(names["ackStateImmediate"])(a.Val) {
					okI = true
				}
			}
			c.Check(okI, "ack-timeout-sends", c.P.Pos(oat.Pos()), "ack timer expiry ⇒ ackState = Immediate", "ack timer expiry does not trigger the ack")
			// per-packet flags are cleared at the start of each packet
			hcs := c.Fn("Association.handleChunksStart")
			nClr := 0
			for _, f := range []*types.Var{imm, del} {
				for _, a := range c.storesIn(hcs, f) {
					if IsConstBool(false)(a.Val) {
						nClr++
					}
				}
			}
			c.Check(nClr == 2, "per-packet-flags-cleared", c.P.Pos(hcs.Pos()), "both trigger flags are cleared at the start of a packet", "trigger flags not cleared per packet")
		}})

	register(&Rule{ID: "C19.R6", Props: []string{"C19"}, Engine: "E3",
		Title:   "a gap or a duplicate forces an immediate acknowledgement: handleData's ack argument is true on the sna32GT(tsn, expected) edge and on the edge where the chunk was refused as duplicate",
		MinInst: 3,
		Run: func(c *RuleCtx) {
			hd := c.Fn("Association.handleData")
			hpl := c.Fn("Association.handlePeerLastTSNAndAcknowledgement")
			gt := c.Fn("sna32GT")
			canPush := c.Fn("receivePayloadQueue.canPush")
			tsn := c.field("chunkPayloadData", "tsn")
			peer := c.Fn("Association.peerLastTSN")
			is := c.field("chunkPayloadData", "immediateSack")
			var final ssa.CallInstruction
			for _, hc := range callsIn(hd, hpl) {
				if !IsConstBool(true)(callArg(hc, 1)) {
					final = hc
				}
			}
			if final == nil {
				c.Fail("ack-argument", c.P.Pos(hd.Pos()), "no data-dependent handlePeerLastTSNAndAcknowledgement call in handleData")
				return
			}
			arg := callArg(final, 1)
			// collect the boolean terms that can make the argument true
			terms := map[string]bool{}
			var walk func(v ssa.Value, d int)
			walk = func(v ssa.Value, d int) {
				if d > 8 {
					return
				}
				switch x := v.(type) {
				case *ssa.Phi:
					for i, e := range x.Edges {
						if k, ok := e.(*ssa.Const); ok && k.Value != nil && k.Value.Kind() == constant.Bool {
							if constant.BoolVal(k.Value) {
								// which condition leads to this edge?
								for _, f := range DomFacts(x.Block().Preds[i]) {
									if f.Taken {
										walk(f.Cond, d+1)
									} else if call, ok := isCallTo(f.Cond, canPush); ok {
										_ = call
										terms["!canPush"] = true
									}
								}
								pred := x.Block().Preds[i]
								if ifi, ok := pred.Instrs[len(pred.Instrs)-1].(*ssa.If); ok {
									cv, t := normCond(ifi.Cond, pred.Succs[0] == x.Block())
									if t {
										walk(cv, d+1)
									} else if _, ok := isCallTo(cv, canPush); ok {
										terms["!canPush"] = true
									}
								}
							}
							continue
						}
						walk(e, d+1)
					}
				case *ssa.Call:
					if call, ok := isCallTo(x, gt); ok && IsLoadOf(tsn)(call.Call.Args[0]) && BinV(token.ADD, IsCallOf(peer), IsConstInt(1))(call.Call.Args[1]) {
						terms["gap"] = true
					}
				case *ssa.UnOp:
					if x.Op == token.NOT {
						if _, ok := isCallTo(x.X, canPush); ok {
							terms["!canPush"] = true
						}
					} else if IsLoadOf(is)(x) {
						terms["I-bit"] = true
					}
				case *ssa.BinOp:
					walk(x.X, d+1)
					walk(x.Y, d+1)
				}
			}
			walk(arg, 0)
			c.Check(terms["gap"], "immediate-on-gap", c.Pos(final), "sna32GT(chunk.tsn, peerLastTSN()+1) makes the ack immediate", "a gap does not force an immediate ack")
			c.Check(terms["I-bit"], "immediate-on-I-bit", c.Pos(final), "the chunk's I bit makes the ack immediate", "the I bit is ignored")
			c.Check(terms["!canPush"], "immediate-on-duplicate", c.Pos(final), "a refused (duplicate) chunk makes the ack immediate",
				"a duplicate DATA chunk gets only a delayed acknowledgement (canPush()==false does not feed the ack decision)")
			// duplicates are recorded so that the SACK reports them
			push := c.Fn("receivePayloadQueue.push")
			rec := false
			for _, pc := range callsIn(hd, push) {
				if DominatedByExt(pc, CallCond(canPush, false)) {
					rec = true
				}
			}
			c.Check(rec, "duplicate-recorded", c.P.Pos(hd.Pos()), "a refused chunk's TSN is handed to payloadQueue.push, which records duplicates for the SACK", "a duplicate TSN is never recorded (SACK cannot report it)")
		}})

	register(&Rule{ID: "C19.R7", Props: []string{"C19"}, Engine: "E1+E2",
		Title:   "heartbeat round trip: the request carries an 8-byte timestamp, the peer echoes the request's info, and the reply yields an RTT sample under the sanity guards",
		MinInst: 5,
		Run: func(c *RuleCtx) {
			hh := c.Fn("Association.handleHeartbeat")
			hi := c.field("paramHeartbeatInfo", "heartbeatInformation")
			okEcho := false
			for _, a := range c.storesIn(hh, hi) {
				if IsLoadOf(hi)(a.Val) {
					okEcho = true
				}
			}
			c.Check(okEcho, "heartbeat-echo", c.P.Pos(hh.Pos()), "HEARTBEAT-ACK info <- the request's info", "the reply does not echo the request's Heartbeat Info")
			ha := c.Fn("Association.handleHeartbeatAck")
			set := c.Fn("rtoManager.setNewRTT")
			for _, sc := range callsIn(ha, set) {
				c.Dom("hb-sample-8-bytes", sc, CmpCond(token.EQL, lenOf(hi, nil), IsConstInt(8)), "len(info) == 8")
				okT := false
				for _, f := range DomFacts(sc.Block()) {
					if call, ok := f.Cond.(*ssa.Call); ok {
						if scc := call.Call.StaticCallee(); scc != nil && scc.Name() == "Before" && !f.Taken {
							okT = true
						}
					}
				}
				c.Check(okT, "hb-sample-not-future", c.Pos(sc), "guarded by !now.Before(sent)", "a timestamp in the future is accepted as a sample")
			}
			c.Check(len(callsIn(ha, set)) == 1, "hb-sample-site", c.P.Pos(ha.Pos()), "HEARTBEAT-ACK feeds setNewRTT", "HEARTBEAT-ACK no longer yields an RTT sample")
			sah := c.Fn("Association.sendActiveHeartbeatLocked")
			ok8 := false
			forEachInstr(sah, func(in ssa.Instruction) {
				if ms, ok := in.(*ssa.MakeSlice); ok && IsConstInt(8)(ms.Len) {
					ok8 = true
				}
				if al, ok := in.(*ssa.Alloc); ok && typeShort(al.Type()) == "*[8]byte" {
					ok8 = true
				}
			})
			c.Check(ok8, "hb-request-timestamp", c.P.Pos(sah.Pos()), "request info is an 8-byte buffer (timestamp)", "request no longer carries an 8-byte timestamp")
			// ActiveHeartbeat only when established
			ah := c.Fn("Association.ActiveHeartbeat")
			e, _ := c.P.States()
			est := c.P.Const("established")
			ev, _ := constant.Int64Val(est.Val())
			for _, sc := range callsIn(ah, sah) {
				c.Dom("hb-only-established", sc, CmpCond(token.EQL, IsCallOf(e.getState), IsConstInt(ev)), "state == established")
			}
		}})

	register(&Rule{ID: "C19.R8", Props: []string{"C19", "C02", "C09"}, Engine: "E3-sibling",
		Title:   "timer expiry accounting (rtxTimer and ackTimer agree): the pending-callback counter is incremented exactly when the Go timer is (re)armed, decremented by the callback itself, and decremented by stop/close only when timer.Stop() reports that the callback will not run",
		MinInst: 10,
		Run: func(c *RuleCtx) {
			for _, tn := range []string{"rtxTimer", "ackTimer"} {
				pend := c.field(tn, "pending")
				for _, mn := range []string{"stop", "close"} {
					fn := c.Fn(tn + "." + mn)
					n := 0
					for _, a := range c.storesIn(fn, pend) {
						n++
						okDec := BinV(token.SUB, IsLoadOf(pend), IsConstInt(1))(a.Val)
						okG := DominatedByExt(a.Instr, func(v ssa.Value, t bool) bool {
							call, ok := v.(*ssa.Call)
							if !ok || !t {
								return false
							}
							sc := call.Call.StaticCallee()
							return sc != nil && sc.Name() == "Stop" && sc.Pkg != nil && sc.Pkg.Pkg.Path() == "time"
						})
						c.Check(okDec && okG, fmt.Sprintf("pending-dec-needs-Stop-true:%s.%s", tn, mn), c.Pos(a.Instr), "pending-- only when timer.Stop() returned true",
							"pending is decremented even when timer.Stop() returned false (the expired callback is already on its way and will decrement again: the uint8 counter wraps and every later expiry is discarded, so the timer never fires again)")
					}
					c.Check(n >= 1, fmt.Sprintf("pending-dec-site:%s.%s", tn, mn), c.P.Pos(fn.Pos()), "one decrement site", fmt.Sprintf("%d stores to pending", n))
				}
				// callback: exactly one unconditional decrement at entry; re-arm increments
				to := c.Fn(tn + ".timeout")
				decs, incs := 0, 0
				for _, a := range c.storesIn(to, pend) {
					if BinV(token.SUB, IsLoadOf(pend), IsConstInt(1))(a.Val) {
						decs++
						c.Check(len(DomFacts(a.Instr.Block())) == 0, "callback-dec-unconditional:"+tn, c.Pos(a.Instr), "the callback always consumes one pending count", "the callback's decrement is conditional")
					} else if BinV(token.ADD, IsLoadOf(pend), IsConstInt(1))(a.Val) {
						incs++
					}
				}
				c.Check(decs == 1, "callback-dec:"+tn, c.P.Pos(to.Pos()), "one decrement in the expiry callback", fmt.Sprintf("%d decrements", decs))
				// every Reset is paired with pending++ in the same block
				for _, fname := range []string{tn + ".timeout", tn + ".start"} {
					fn := c.Fn(fname)
					forEachInstr(fn, func(in ssa.Instruction) {
						ci, ok := in.(ssa.CallInstruction)
						if !ok {
							return
						}
						sc := ci.Common().StaticCallee()
						if sc == nil || sc.Name() != "Reset" {
							return
						}
						paired := false
						for _, a := range c.storesIn(fn, pend) {
							if a.Instr.Block() == in.Block() && BinV(token.ADD, IsLoadOf(pend), IsConstInt(1))(a.Val) {
								paired = true
							}
						}
						c.Check(paired, "arm-increments-pending:"+fname, c.Pos(in), "timer.Reset is paired with pending++", "timer armed without counting the pending callback")
					})
				}
				// the callback acts only when it is the last pending one and the timer is still started
				stf := c.field(tn, "state")
				forEachInstr(to, func(in ssa.Instruction) {
					d, ok := in.(ssa.CallInstruction)
					if !ok || !d.Common().IsInvoke() {
						return
					}
					c.Dom("callback-acts-if-last:"+tn+"."+d.Common().Method.Name(), d, CmpCond(token.EQL, IsLoadOf(pend), IsConstInt(0)), "pending == 0")
					var started int64
					fmt.Sscan(c.P.Const(tn+"Started").Val().String(), &started)
					c.Dom("callback-acts-if-started:"+tn+"."+d.Common().Method.Name(), d, CmpCond(token.EQL, IsLoadOf(stf), IsConstInt(started)), "state == started")
				})
			}
		}})
}
