package main

import (
	"fmt"
	"go/token"
	"go/types"

	"golang.org/x/tools/go/ssa"
)

// upperBound: a static upper bound of an unsigned/int value, from constants,
// min/max builtins, the arithmetic in between and (for parameters) the bounds
// of every call site's argument. ok=false when no bound is derivable.
func (p *Prog) upperBound(v ssa.Value, d int) (int64, bool) {
	if d > 10 || v == nil {
		return 0, false
	}
	if k, ok := constInt(v); ok {
		return k, true
	}
	switch x := v.(type) {
	case *ssa.Convert:
		if isIntType(x.X.Type()) && isIntType(x.Type()) && sizeOf(x.Type()) >= sizeOf(x.X.Type()) {
			return p.upperBound(x.X, d+1)
		}
	case *ssa.ChangeType:
		return p.upperBound(x.X, d+1)
	case *ssa.BinOp:
		a, okA := p.upperBound(x.X, d+1)
		b, okB := p.upperBound(x.Y, d+1)
		switch x.Op {
		case token.ADD:
			if okA && okB {
				return a + b, true
			}
		case token.MUL:
			if okA && okB && a >= 0 && b >= 0 {
				return a * b, true
			}
		case token.QUO:
			if k, isK := constInt(x.Y); isK && k > 0 && okA {
				return a / k, true
			}
		case token.REM:
			if k, isK := constInt(x.Y); isK && k > 0 {
				return k - 1, true
			}
		case token.AND:
			if okB && isUnsigned(x.Type()) {
				return b, true
			}
			if okA && isUnsigned(x.Type()) {
				return a, true
			}
		}
	case *ssa.Phi:
		var m int64
		for i, e := range x.Edges {
			k, ok := p.upperBound(e, d+1)
			// the edge may only be taken when a test bounds the value (if v > K { v = K })
			if gk, gok := edgeBound(x, i, e, true); gok && (!ok || gk < k) {
				k, ok = gk, true
			}
			if !ok {
				return 0, false
			}
			if k > m {
				m = k
			}
		}
		return m, true
	case *ssa.Call:
		if b, ok := x.Call.Value.(*ssa.Builtin); ok {
			switch b.Name() {
			case "min":
				best, have := int64(0), false
				for _, a := range x.Call.Args {
					if k, ok := p.upperBound(a, d+1); ok && (!have || k < best) {
						best, have = k, true
					}
				}
				return best, have
			case "max":
				var m int64
				for _, a := range x.Call.Args {
					k, ok := p.upperBound(a, d+1)
					if !ok {
						return 0, false
					}
					if k > m {
						m = k
					}
				}
				return m, true
			}
			return 0, false
		}
		if sc := x.Call.StaticCallee(); sc != nil && p.inPkg(sc) && sc.Blocks != nil && sc.Signature.Results().Len() == 1 {
			switch sc.Name() {
			case "min32":
				best, have := int64(0), false
				for _, a := range x.Call.Args {
					if k, ok := p.upperBound(a, d+1); ok && (!have || k < best) {
						best, have = k, true
					}
				}
				return best, have
			}
			var m int64
			for _, r := range allReturns(sc) {
				k, ok := p.upperBound(retResults(r)[0], d+1)
				if !ok {
					return 0, false
				}
				if k > m {
					m = k
				}
			}
			return m, true
		}
	case *ssa.Parameter:
		fn := x.Parent()
		idx := -1
		for i, q := range fn.Params {
			if q == x {
				idx = i
			}
		}
		sites := p.CallSitesOf(fn)
		if idx < 0 || len(sites) == 0 {
			return 0, false
		}
		var m int64
		for _, cs := range sites {
			k, ok := p.upperBound(callArgAbs(cs.Instr, idx), d+1)
			if !ok {
				return 0, false
			}
			if k > m {
				m = k
			}
		}
		return m, true
	}
	return 0, false
}

// callArgAbs: argument for parameter index idx of the callee (receiver is index 0 for methods).
func callArgAbs(in ssa.Instruction, idx int) ssa.Value {
	ci, ok := in.(ssa.CallInstruction)
	if !ok || idx >= len(ci.Common().Args) {
		return nil
	}
	return ci.Common().Args[idx]
}

func init() {
	register(&Rule{ID: "C05.R8", Props: []string{"C05", "C12"}, Engine: "E6-interval",
		Title:   "gap-ack offsets fit their 16-bit wire field: the SACK builder narrows (tsn − cumulativeTSN) to uint16, so the tracking window stored in receivePayloadQueue.maxTSNOffset must have a static upper bound ≤ 65535 over every constructor call site (otherwise an accepted TSN ≥ cum+65536 is reported at offset−65536: a TSN never received)",
		MinInst: 2,
		Run: func(c *RuleCtx) {
			ggb := c.Fn("receivePayloadQueue.getGapAckBlocks")
			cum := c.field("receivePayloadQueue", "cumulativeTSN")
			win := c.field("receivePayloadQueue", "maxTSNOffset")
			narrow := 0
			forEachInstr(ggb, func(in ssa.Instruction) {
				cv, ok := in.(*ssa.Convert)
				if !ok {
					return
				}
				bt, ok := cv.Type().Underlying().(*types.Basic)
				if !ok || bt.Kind() != types.Uint16 {
					return
				}
				if b, ok := cv.X.(*ssa.BinOp); ok && b.Op == token.SUB && IsLoadOf(cum)(b.Y) {
					narrow++
				}
			})
			c.Check(narrow >= 1, "offsets-are-16-bit", c.P.Pos(ggb.Pos()), fmt.Sprintf("%d narrowing(s) of tsn−cumulativeTSN to uint16 in the SACK builder", narrow), "no uint16 narrowing of a TSN offset found in getGapAckBlocks (anchor lost)")
			n := 0
			for _, fn := range c.P.Funcs {
				for _, a := range c.storesIn(fn, win) {
					n++
					ub, ok := c.P.upperBound(a.Val, 0)
					c.Check(ok && ub <= 65535, "window-fits-16-bit@"+c.P.FuncName(fn), c.Pos(a.Instr), fmt.Sprintf("tracking window ≤ %d ≤ 65535 at every constructor call site", ub),
						fmt.Sprintf("tracking window upper bound %d (derivable=%v) exceeds what a 16-bit gap-ack offset can express", ub, ok))
				}
			}
			c.Check(n >= 1, "window-writers", "", fmt.Sprintf("%d store(s) to maxTSNOffset", n), "no store to receivePayloadQueue.maxTSNOffset found")
		}})
}

// edgeBound: on the CFG edge by which φ takes input e, a dominating test
// compares e with a constant; returns the implied upper (upper=true) or lower
// bound of e on that edge.
func edgeBound(phi *ssa.Phi, i int, e ssa.Value, upper bool) (int64, bool) {
	pred := phi.Block().Preds[i]
	facts := DomFacts(pred)
	if len(pred.Instrs) > 0 {
		if ifi, ok := pred.Instrs[len(pred.Instrs)-1].(*ssa.If); ok && pred.Succs[0] != pred.Succs[1] {
			cc, tt := normCond(ifi.Cond, pred.Succs[0] == phi.Block())
			facts = append(facts, condFact{cc, tt})
		}
	}
	best, have := int64(0), false
	for _, f := range facts {
		b, ok := f.Cond.(*ssa.BinOp)
		if !ok {
			continue
		}
		op := b.Op
		if !f.Taken {
			op = invertOp(op)
		}
		var k int64
		var isK bool
		switch {
		case unconv(b.X) == unconv(e):
			k, isK = constInt(b.Y)
		case unconv(b.Y) == unconv(e):
			k, isK = constInt(b.X)
			op = swapOp(op)
		}
		if !isK {
			continue
		}
		// now: e op k
		var bound int64
		okB := false
		if upper {
			switch op {
			case token.LEQ, token.EQL:
				bound, okB = k, true
			case token.LSS:
				bound, okB = k-1, true
			}
			if okB && (!have || bound < best) {
				best, have = bound, true
			}
		} else {
			switch op {
			case token.GEQ, token.EQL:
				bound, okB = k, true
			case token.GTR:
				bound, okB = k+1, true
			}
			if okB && (!have || bound > best) {
				best, have = bound, true
			}
		}
	}
	return best, have
}

// lowerBoundI: static lower bound of an unsigned/int value (constants, min/max
// builtins, guarded φ, sums and products of bounded values, in-package returns).
func (p *Prog) lowerBoundI(v ssa.Value, d int) (int64, bool) {
	if d > 10 || v == nil {
		return 0, false
	}
	if k, ok := constInt(v); ok {
		return k, true
	}
	switch x := v.(type) {
	case *ssa.Convert:
		if isIntType(x.X.Type()) && isIntType(x.Type()) && sizeOf(x.Type()) >= sizeOf(x.X.Type()) {
			return p.lowerBoundI(x.X, d+1)
		}
	case *ssa.ChangeType:
		return p.lowerBoundI(x.X, d+1)
	case *ssa.Phi:
		m, first := int64(0), true
		for i, e := range x.Edges {
			k, ok := p.lowerBoundI(e, d+1)
			if gk, gok := edgeBound(x, i, e, false); gok && (!ok || gk > k) {
				k, ok = gk, true
			}
			if !ok {
				if isUnsigned(e.Type()) {
					k, ok = 0, true
				} else {
					return 0, false
				}
			}
			if first || k < m {
				m, first = k, false
			}
		}
		return m, !first
	case *ssa.Call:
		if b, ok := x.Call.Value.(*ssa.Builtin); ok {
			switch b.Name() {
			case "max":
				best, have := int64(0), false
				for _, a := range x.Call.Args {
					if k, ok := p.lowerBoundI(a, d+1); ok && (!have || k > best) {
						best, have = k, true
					}
				}
				return best, have
			case "min":
				m, first := int64(0), true
				for _, a := range x.Call.Args {
					k, ok := p.lowerBoundI(a, d+1)
					if !ok {
						if isUnsigned(a.Type()) {
							k = 0
						} else {
							return 0, false
						}
					}
					if first || k < m {
						m, first = k, false
					}
				}
				return m, !first
			case "len":
				return 0, true
			}
			return 0, false
		}
		if sc := x.Call.StaticCallee(); sc != nil && p.inPkg(sc) && sc.Blocks != nil && sc.Signature.Results().Len() == 1 {
			m, first := int64(0), true
			for _, r := range allReturns(sc) {
				k, ok := p.lowerBoundI(retResults(r)[0], d+1)
				if !ok {
					return 0, false
				}
				if first || k < m {
					m, first = k, false
				}
			}
			return m, !first
		}
	}
	if isUnsigned(v.Type()) {
		return 0, true
	}
	return 0, false
}
