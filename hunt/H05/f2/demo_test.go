// SPDX-FileCopyrightText: 2026 The Pion community <https://pion.ly>
// SPDX-License-Identifier: MIT

package sctp

import (
	"testing"

	"github.com/stretchr/testify/require"
)

// C17 (weighted fair queueing bound): the WFQ scheduler latches the stream chosen by Peek()
// until the next Pop(). The association peeks the head chunk, finds that cwnd is full and
// leaves it there (popPendingDataChunksToSend -> break). Chunks written afterwards on heavier
// streams get smaller finish tags than the latched chunk, but the latched chunk is still the
// one popped next, and Pop() then moves the virtual time forward to ITS finish tag, i.e. past
// the tags of chunks that are still queued. Every stream that becomes backlogged after that is
// stamped behind the whole existing backlog of the other streams, so two continuously
// backlogged streams with EQUAL weights are served N chunks to 0, for arbitrarily large N.
func TestHunt4WFQVirtualTimeJumpsPastQueuedChunks(t *testing.T) {
	const (
		chunkLen = 1000
		backlog  = 30
	)

	assoc := createTestAssociationWithOptions(t, Config{}, WithInterleavingOptions(
		WithInterleavingWeightedFairQueueingWeight(2, 100),
		WithInterleavingWeightedFairQueueingWeight(3, 100),
	))
	defer func() {
		assoc.closeWriteLoopOnce.Do(func() { close(assoc.closeWriteLoopCh) })
		assoc.closeAllTimers()
	}()

	assoc.lock.Lock()
	assoc.localInterleaving = true
	assoc.peerInterleaving = true
	assoc.peerIForwardTSN = true
	require.NoError(t, assoc.establish("test"))
	require.True(t, assoc.useInterleaving)
	assoc.setRWND(1 << 20)
	assoc.setCWND(chunkLen) // room for exactly one chunk in flight
	assoc.ssthresh = 1 << 20
	assoc.lock.Unlock()

	s1, err := assoc.OpenStream(1, PayloadTypeWebRTCBinary) // default weight 1
	require.NoError(t, err)
	s2, err := assoc.OpenStream(2, PayloadTypeWebRTCBinary) // weight 100
	require.NoError(t, err)
	s3, err := assoc.OpenStream(3, PayloadTypeWebRTCBinary) // weight 100
	require.NoError(t, err)

	// what the write loop does every time it is woken up.
	runWriteLoopOnce := func() []*chunkPayloadData {
		assoc.lock.Lock()
		defer assoc.lock.Unlock()
		chunks, _ := assoc.popPendingDataChunksToSend(nil, nil)

		return chunks
	}
	write := func(s *Stream) {
		n, werr := s.WriteSCTP(make([]byte, chunkLen), PayloadTypeWebRTCBinary)
		require.NoError(t, werr)
		require.Equal(t, chunkLen, n)
	}

	// 1) stream 1 sends one chunk: it fills cwnd.
	write(s1)
	sent := runWriteLoopOnce()
	require.Len(t, sent, 1)
	firstTSN := sent[0].tsn

	// 2) stream 1 writes a second chunk. The write loop peeks it, cwnd is full, nothing is sent.
	write(s1)
	require.Empty(t, runWriteLoopOnce())

	// 3) stream 2 (weight 100) queues a backlog while cwnd is still full.
	for i := 0; i < backlog; i++ {
		write(s2)
		require.Empty(t, runWriteLoopOnce())
	}

	// 4) the first chunk is acknowledged; cwnd opens (slow start: 1000 -> 2000).
	assoc.lock.Lock()
	err = assoc.handleSack(&chunkSelectiveAck{
		cumulativeTSNAck:               firstTSN,
		advertisedReceiverWindowCredit: 1 << 20,
	})
	assoc.lock.Unlock()
	require.NoError(t, err)
	sent = runWriteLoopOnce()
	require.NotEmpty(t, sent)

	// 5) stream 3 (weight 100, same as stream 2) becomes backlogged now. From here on streams 2
	//    and 3 are both continuously backlogged until the end of the test.
	for i := 0; i < backlog; i++ {
		write(s3)
	}

	// 6) open the window and let the scheduler drain; record the service order.
	assoc.lock.Lock()
	assoc.setCWND(1 << 20)
	assoc.lock.Unlock()
	order := runWriteLoopOnce()

	served := map[uint16]int{}
	total := map[uint16]int{}
	for _, c := range order {
		total[c.streamIdentifier] += len(c.userData)
	}
	require.Greater(t, total[2], 10*chunkLen)
	require.Equal(t, backlog*chunkLen, total[3])

	// weight(2) == weight(3), so while both are backlogged their service may differ by at most
	// one maximum-size chunk per stream = 2*chunkLen bytes.
	maxDiff := 0
	for _, c := range order {
		served[c.streamIdentifier] += len(c.userData)
		if served[2] == total[2] || served[3] == total[3] {
			break // one of them is no longer backlogged
		}
		diff := served[2] - served[3]
		if diff < 0 {
			diff = -diff
		}
		if diff > maxDiff {
			maxDiff = diff
		}
	}
	require.LessOrEqualf(t, maxDiff, 2*chunkLen,
		"streams 2 and 3 have equal weights and are both backlogged, but their service differs by %d bytes (%d chunks)",
		maxDiff, maxDiff/chunkLen)
}
