// SPDX-FileCopyrightText: 2026 The Pion community <https://pion.ly>
// SPDX-License-Identifier: MIT

package sctp

import (
	"testing"
	"time"

	"github.com/pion/logging"
	"github.com/pion/transport/v4/test"
	"github.com/stretchr/testify/assert"
	"github.com/stretchr/testify/require"
)

// WithSNAP is an AssociationOption, i.e. it is accepted by ServerWithOptions as well.
// There the tokens are silently ignored: the server-side call waits for an INIT that
// the token-started peer never sends, and it never becomes established.
func TestHunt2_SNAPTokensIgnoredByServerWithOptions(t *testing.T) {
	lim := test.TimeOut(10 * time.Second)
	defer lim.Stop()

	loggerFactory := logging.NewDefaultLoggerFactory()
	br := test.NewBridge()

	tokenA, err := GenerateOutOfBandToken()
	require.NoError(t, err)
	tokenB, err := GenerateOutOfBandToken()
	require.NoError(t, err)

	assocA, err := ClientWithOptions(
		WithName("a"), WithNetConn(br.GetConn0()), WithLoggerFactory(loggerFactory),
		WithSNAP(tokenA, tokenB))
	require.NoError(t, err)
	require.Equal(t, established, assocA.getState())

	type result struct {
		a   *Association
		err error
	}
	resCh := make(chan result, 1)
	go func() {
		a, errB := ServerWithOptions(
			WithName("b"), WithNetConn(br.GetConn1()), WithLoggerFactory(loggerFactory),
			WithSNAP(tokenB, tokenA))
		resCh <- result{a, errB}
	}()

	var res result
	returned := false
	deadline := time.Now().Add(2 * time.Second)
	for time.Now().Before(deadline) && !returned {
		br.Process()
		select {
		case res = <-resCh:
			returned = true
		default:
			time.Sleep(10 * time.Millisecond)
		}
	}

	if assert.True(t, returned, "ServerWithOptions(WithSNAP(...)) never returns: the tokens were silently ignored") {
		require.NoError(t, res.err)
		assert.Equal(t, established, res.a.getState())
		_ = res.a.Close()
	}

	// Tear down (bridge reads are only woken by ticks).
	closed := make(chan struct{})
	go func() {
		_ = assocA.Close()
		_ = br.GetConn1().Close()
		close(closed)
	}()
	for {
		br.Tick()
		select {
		case <-closed:
			return
		default:
			time.Sleep(10 * time.Millisecond)
		}
	}
}
