package sctp

import (
	"encoding/binary"
	"testing"

	"github.com/stretchr/testify/assert"
	"github.com/stretchr/testify/require"
)

// Finding 6 (C12): 16-bit length fields silently wrap in marshal().
// chunkHeader.marshal / paramHeader.marshal / errorCauseHeader.marshal cast the length to
// uint16 without a range check and return no error. Only I-FORWARD-TSN has a limit
// (maxIForwardTSNStreams); FORWARD-TSN, SACK, error causes ... do not. An association can
// be driven to build such chunks, and then emits a packet whose Chunk Length does not
// describe the chunk, i.e. a packet that does not decode to what it was built from.

// (a) SACK: with a receive buffer >= ~4.1 MB the TSN window is > 32760 TSNs, so a peer that
// delivers every other TSN creates more than 16379 gap-ack blocks: 16+4*N > 65535.
func TestZZHunt6_SackLengthWraps(t *testing.T) {
	a := createTestAssociation(t, Config{MaxReceiveBufferSize: 8 * 1024 * 1024})
	a.lock.Lock()
	a.payloadQueue.init(999)
	a.peerVerificationTag, a.sourcePort, a.destinationPort = 1, 5000, 5000
	n := 0
	for tsn := uint32(1001); n < 17000; tsn += 2 { // every other TSN is missing
		require.True(t, a.payloadQueue.canPush(tsn), "TSN %d is inside the receive window", tsn)
		require.True(t, a.payloadQueue.push(tsn))
		n++
	}
	sack := a.createSelectiveAckChunk()
	raw, err := a.marshalPacket(a.createPacket([]chunk{sack}))
	a.lock.Unlock()
	require.Len(t, sack.gapAckBlocks, 17000)

	zzF6Check(t, "SACK", raw, err, func(p *packet) {
		s, ok := p.chunks[0].(*chunkSelectiveAck)
		require.True(t, ok)
		assert.Equal(t, sack.gapAckBlocks, s.gapAckBlocks)
	})
}

// (b) FORWARD-TSN: one abandoned ordered message on each of 16400 streams
// (8 + 4*16400 > 65535). I-FORWARD-TSN refuses to marshal in the equivalent situation.
func TestZZHunt6_ForwardTSNLengthWraps(t *testing.T) {
	a := createTestAssociation(t, Config{})
	a.lock.Lock()
	a.peerVerificationTag, a.sourcePort, a.destinationPort = 1, 5000, 5000
	a.useForwardTSN = true
	const nStreams = 16400
	a.cumulativeTSNAckPoint = 9
	a.advancedPeerTSNAckPoint = 9 + nStreams
	for i := range uint32(nStreams) {
		a.inflightQueue.pushNoCheck(&chunkPayloadData{
			beginningFragment: true, endingFragment: true,
			tsn: 10 + i, streamIdentifier: uint16(i), streamSequenceNumber: 7, //nolint:gosec
			userData: []byte("x"), nSent: 1, _abandoned: true, _allInflight: true,
		})
	}
	fwd := a.createForwardTSN()
	raw, err := a.marshalPacket(a.createPacket([]chunk{fwd}))
	a.lock.Unlock()
	require.Len(t, fwd.streams, nStreams)

	zzF6Check(t, "FORWARD-TSN", raw, err, func(p *packet) {
		f, ok := p.chunks[0].(*chunkForwardTSN)
		require.True(t, ok)
		assert.Len(t, f.streams, nStreams)
	})
}

// (c) error cause: Association.Abort(reason) copies an arbitrary long reason into a User
// Initiated Abort cause; the cause length wraps (and for 65532..65535 bytes marshal panics
// with an index out of range in the write loop).
func TestZZHunt6_AbortCauseLengthWraps(t *testing.T) {
	reason := make([]byte, 70000)
	for i := range reason {
		reason[i] = 'r'
	}
	c := &chunkAbort{errorCauses: []errorCause{&errorCauseUserInitiatedAbort{upperLayerAbortReason: reason}}}
	p := &packet{sourcePort: 5000, destinationPort: 5000, verificationTag: 1, chunks: []chunk{c}}
	raw, err := p.marshal(true)

	zzF6Check(t, "ABORT", raw, err, func(p *packet) {
		ab, ok := p.chunks[0].(*chunkAbort)
		require.True(t, ok)
		require.Len(t, ab.errorCauses, 1)
		u, ok := ab.errorCauses[0].(*errorCauseUserInitiatedAbort)
		require.True(t, ok)
		assert.Equal(t, len(reason), len(u.upperLayerAbortReason), "abort reason silently truncated")
	})

	assert.NotPanics(t, func() {
		c := &chunkAbort{errorCauses: []errorCause{&errorCauseUserInitiatedAbort{upperLayerAbortReason: reason[:65533]}}}
		_, _ = c.marshal()
	}, "marshal of a 65533 byte abort reason")
}

// Either marshal must fail, or what was emitted must be self-consistent and decode to the
// chunk it was built from.
func zzF6Check(t *testing.T, what string, raw []byte, err error, same func(p *packet)) {
	t.Helper()
	if err != nil {
		t.Logf("%s: marshal refused: %v (fine)", what, err)

		return
	}
	chunkLen := int(binary.BigEndian.Uint16(raw[packetHeaderSize+2:]))
	t.Logf("%s: packet of %d bytes emitted, Chunk Length field says %d", what, len(raw), chunkLen)
	assert.Equalf(t, len(raw)-packetHeaderSize, chunkLen+getPadding(chunkLen),
		"%s: emitted Chunk Length does not cover the emitted chunk (16-bit wrap)", what)
	p := &packet{}
	if uerr := p.unmarshal(true, raw); !assert.NoErrorf(t, uerr, "%s: emitted packet does not decode", what) {
		return
	}
	require.Len(t, p.chunks, 1)
	same(p)
}
