// SPDX-FileCopyrightText: 2026 The Pion community <https://pion.ly>
// SPDX-License-Identifier: MIT

package sctp

import (
	"runtime"
	"strings"
	"testing"
	"time"

	"github.com/pion/transport/v4/test"
	"github.com/stretchr/testify/assert"
	"github.com/stretchr/testify/require"
)

func huntCountReadDeadlineGoroutines() int {
	buf := make([]byte, 1<<20)
	n := runtime.Stack(buf, true)

	return strings.Count(string(buf[:n]), "(*Stream).SetReadDeadline.func1")
}

// C09: after the peer reset its outgoing side the Stream is removed from
// Association.streams; Association.Close() then does not reach it any more and the
// goroutine + timer armed by SetReadDeadline survive the Close.
func TestHunt1_ReadDeadlineTimerSurvivesCloseAfterInboundReset(t *testing.T) {
	br := test.NewBridge()
	a0, a1, err := createNewAssociationPair(br, ackModeNoDelay, 0)
	require.NoError(t, err)

	s0, s1, err := establishSessionPair(br, a0, a1, 1)
	require.NoError(t, err)

	before := huntCountReadDeadlineGoroutines()

	// The application on a1 arms a (long) read deadline on its stream.
	require.NoError(t, s1.SetReadDeadline(time.Now().Add(time.Hour)))
	require.Equal(t, before+1, huntCountReadDeadlineGoroutines())

	// The peer closes its side: outgoing stream reset a0 -> a1.
	require.NoError(t, s0.Close())
	for i := 0; i < 200; i++ {
		br.Tick()
		a1.lock.RLock()
		_, still := a1.streams[1]
		a1.lock.RUnlock()
		if !still {
			break
		}
		time.Sleep(5 * time.Millisecond)
	}
	a1.lock.RLock()
	_, still := a1.streams[1]
	a1.lock.RUnlock()
	require.False(t, still, "reset was performed: stream removed from the association")

	// Now the association is closed (both sides).
	closeAssociationPair(br, a0, a1)
	time.Sleep(100 * time.Millisecond)

	// Control: a stream that is still registered has its deadline goroutine stopped by Close
	// (that is what commit a518604 did); the one removed by the reset is not.
	s1.lock.RLock()
	cancel := s1.readTimeoutCancel
	s1.lock.RUnlock()
	assert.Nil(t, cancel, "read-deadline timer of the stream is still armed after Association.Close()")
	assert.Equal(t, before, huntCountReadDeadlineGoroutines(),
		"read-deadline goroutine is still running after Association.Close()")
}
