// SPDX-FileCopyrightText: 2026 The Pion community <https://pion.ly>
// SPDX-License-Identifier: MIT

package sctp

import (
	"testing"
	"time"

	"github.com/pion/logging"
	"github.com/pion/transport/v4/test"
	"github.com/stretchr/testify/assert"
	"github.com/stretchr/testify/require"
)

// The peer does not answer within the INIT retry budget, so the connect call reports
// ErrHandshakeInitAck. The association it gave up on is however left running in
// COOKIE-WAIT with its transport open. When the peer shows up afterwards and answers
// one of the (late delivered) INITs, that orphan completes the handshake: the server
// side call returns an ESTABLISHED association whose peer application was told that
// the connection failed, and the orphan's read loop blocks forever (holding the
// association lock) trying to report success on a channel nobody reads any more.
func TestHunt3_FailedConnectLeavesOrphanThatLaterEstablishes(t *testing.T) {
	lim := test.TimeOut(10 * time.Second)
	defer lim.Stop()

	loggerFactory := logging.NewDefaultLoggerFactory()
	br := test.NewBridge()

	// RTO.Max = 50 ms only to make the 1+8 INIT transmissions take ~0.5 s instead of
	// minutes; the same happens with the defaults after 243 s.
	start := time.Now()
	a0, err := Client(Config{
		Name:          "client",
		NetConn:       br.GetConn0(),
		LoggerFactory: loggerFactory,
		RTOMax:        50,
	})
	require.ErrorIs(t, err, ErrHandshakeInitAck)
	require.Nil(t, a0)
	t.Logf("connect failed after %v", time.Since(start))

	// The INITs were never delivered (bridge not ticked). The peer starts only now.
	type result struct {
		a   *Association
		err error
	}
	resCh := make(chan result, 1)
	go func() {
		a, errS := Server(Config{
			Name:          "server",
			NetConn:       br.GetConn1(),
			LoggerFactory: loggerFactory,
		})
		resCh <- result{a, errS}
	}()

	var res result
	returned := false
	deadline := time.Now().Add(1500 * time.Millisecond)
	for time.Now().Before(deadline) && !returned {
		br.Process()
		select {
		case res = <-resCh:
			returned = true
		default:
			time.Sleep(10 * time.Millisecond)
		}
	}

	established1 := returned && res.err == nil && res.a != nil && res.a.getState() == established
	assert.False(t, established1,
		"the server became ESTABLISHED with a client whose connect call had already reported failure")

	// Tear down.
	closed := make(chan struct{})
	go func() {
		if res.a != nil {
			_ = res.a.Close()
		}
		_ = br.GetConn0().Close()
		_ = br.GetConn1().Close()
		close(closed)
	}()
	for {
		br.Tick()
		select {
		case <-closed:
			return
		default:
			time.Sleep(10 * time.Millisecond)
		}
	}
}
