package sctp

import (
	"testing"
	"time"

	"github.com/pion/transport/v4/test"
	"github.com/stretchr/testify/assert"
	"github.com/stretchr/testify/require"
)

// C07: an abandoned message that was the FIRST one on its stream must not block
// later messages on that stream. When the receiver cannot create the stream at
// the moment the FORWARD-TSN arrives (accept backlog full), the skip is
// silently dropped, the cumulative TSN is advanced anyway, and every later
// ordered message on that stream is stuck behind SSN 0 forever.
func TestHunt3FirstMessageSkipLostWhenAcceptBacklogFull(t *testing.T) {
	lim := test.TimeOut(time.Second * 20)
	defer lim.Stop()

	br := test.NewBridge()

	a0, a1, err := createNewAssociationPair(br, ackModeNoDelay, 0)
	require.NoError(t, err)
	a0.rtoMgr.setRTO(100.0, true)

	// Fill a1's accept backlog: the application has not called AcceptStream yet.
	for si := uint16(0); si < acceptChSize; si++ {
		s, oerr := a0.OpenStream(si, PayloadTypeWebRTCBinary)
		require.NoError(t, oerr)
		_, werr := s.WriteSCTP([]byte("hello"), PayloadTypeWebRTCBinary)
		require.NoError(t, werr)
	}
	flushBuffers(br, a0, a1)
	require.Equal(t, acceptChSize, len(a1.acceptCh))

	// First message on a new stream, partially reliable (max retransmits 0).
	const si uint16 = 100
	s0, err := a0.OpenStream(si, PayloadTypeWebRTCBinary)
	require.NoError(t, err)
	s0.SetReliabilityParams(false, ReliabilityTypeRexmit, 0)
	_, err = s0.WriteSCTP([]byte("first"), PayloadTypeWebRTCBinary)
	require.NoError(t, err)

	// a1 discards the DATA (no room to announce the stream); a0 abandons the
	// message on T3-rtx and sends FORWARD-TSN, which a1 acknowledges.
	flushBuffers(br, a0, a1)
	br.Process()

	a0.lock.Lock()
	require.Equal(t, 0, a0.inflightQueue.size(), "abandoned message was skipped and acknowledged")
	a0.lock.Unlock()

	// The application now drains the backlog.
	for i := 0; i < acceptChSize; i++ {
		_, aerr := a1.AcceptStream()
		require.NoError(t, aerr)
	}

	// A later, reliable and ordered, message on the same stream.
	s0.SetReliabilityParams(false, ReliabilityTypeReliable, 0)
	_, err = s0.WriteSCTP([]byte("second"), PayloadTypeWebRTCBinary)
	require.NoError(t, err)
	flushBuffers(br, a0, a1)
	br.Process()

	s1, err := a1.AcceptStream()
	require.NoError(t, err)
	require.Equal(t, si, s1.StreamIdentifier())

	s1.lock.RLock()
	t.Logf("receiver stream %d: nextSSN=%d queuedOrderedSets=%d (first queued ssn=%d)",
		si, s1.reassemblyQueue.nextSSN, len(s1.reassemblyQueue.ordered), func() int {
			if len(s1.reassemblyQueue.ordered) == 0 {
				return -1
			}

			return int(s1.reassemblyQueue.ordered[0].ssn)
		}())
	s1.lock.RUnlock()

	require.NoError(t, s1.SetReadDeadline(time.Now().Add(2*time.Second)))
	buf := make([]byte, 64)
	n, rerr := s1.Read(buf)
	if assert.NoError(t, rerr, "the later reliable ordered message was acknowledged but is never delivered") {
		assert.Equal(t, "second", string(buf[:n]))
	}

	closeAssociationPair(br, a0, a1)
}
