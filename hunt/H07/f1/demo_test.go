package sctp

import (
	"sync"
	"testing"
	"time"

	"github.com/pion/transport/v4/test"
	"github.com/stretchr/testify/assert"
	"github.com/stretchr/testify/require"
)

func hunt5Pump(br *test.Bridge, a0, a1 *Association) {
	for i := 0; i < 30; i++ {
		br.Process()
		time.Sleep(5 * time.Millisecond)
	}
	flushBuffers(br, a0, a1)
}

// The network duplicates one packet (an Outgoing SSN Reset Request) and delivers
// the copy late, after the stream id has been closed on both sides and re-used
// (as WebRTC data channels do). The receiver executes the stale request a second
// time against the NEW stream; a reliable ordered message written afterwards on
// that stream is never delivered.
func TestHunt5DuplicateResetRequestKillsReusedStream(t *testing.T) {
	br := test.NewBridge()
	a0, a1, err := createNewAssociationPair(br, ackModeNoDelay, 0)
	require.NoError(t, err)
	defer closeAssociationPair(br, a0, a1)

	s0, s1, err := establishSessionPair(br, a0, a1, 1)
	require.NoError(t, err)

	// Record the reset request a1 sends (a1 -> a0), the network will duplicate it.
	var mu sync.Mutex
	var dupReq []byte
	br.Filter(1, func(raw []byte) bool {
		p := &packet{}
		if err := p.unmarshal(false, raw); err == nil {
			for _, c := range p.chunks {
				if rc, ok := c.(*chunkReconfig); ok {
					if _, ok := rc.paramA.(*paramOutgoingResetRequest); ok {
						mu.Lock()
						if dupReq == nil {
							dupReq = append([]byte{}, raw...)
						}
						mu.Unlock()
					}
				}
			}
		}

		return true
	})

	// Generation 1 of stream 1 is closed in both directions.
	require.NoError(t, s1.Close())
	hunt5Pump(br, a0, a1)
	require.NoError(t, s0.Close())
	hunt5Pump(br, a0, a1)
	br.Filter(1, nil)
	mu.Lock()
	require.NotNil(t, dupReq, "reset request captured")
	mu.Unlock()
	a0.lock.RLock()
	_, still0 := a0.streams[1]
	a0.lock.RUnlock()
	a1.lock.RLock()
	_, still1 := a1.streams[1]
	nReconf := len(a1.reconfigs)
	a1.lock.RUnlock()
	require.False(t, still0)
	require.False(t, still1)
	require.Equal(t, 0, nReconf, "a1's reset request was answered")

	// Generation 2: the id is re-used.
	s0b, s1b, err := establishSessionPair(br, a0, a1, 1)
	require.NoError(t, err)

	_, err = s1b.WriteSCTP([]byte("m0"), PayloadTypeWebRTCBinary)
	require.NoError(t, err)
	hunt5Pump(br, a0, a1)
	buf := make([]byte, 64)
	n, _, err := s0b.ReadSCTP(buf)
	require.NoError(t, err)
	require.Equal(t, "m0", string(buf[:n]))

	// The late duplicate of the generation-1 reset request arrives at a0.
	require.True(t, br.Push(dupReq, 1))
	hunt5Pump(br, a0, a1)

	// From here on the network is fault free. a1 writes another reliable, ordered message.
	_, err = s1b.WriteSCTP([]byte("m1"), PayloadTypeWebRTCBinary)
	require.NoError(t, err)
	hunt5Pump(br, a0, a1)
	require.Equal(t, 0, a1.BufferedAmount(), "m1 was acknowledged by a0")

	// The application keeps reading s0b and accepting new streams.
	got := make(chan string, 4)
	go func() {
		b := make([]byte, 64)
		for {
			n, _, err := s0b.ReadSCTP(b)
			if err != nil {
				got <- "s0b read error: " + err.Error()

				return
			}
			got <- string(b[:n])
		}
	}()
	go func() {
		for {
			s, err := a0.AcceptStream()
			if err != nil {
				return
			}
			go func() {
				b := make([]byte, 64)
				for {
					n, _, err := s.ReadSCTP(b)
					if err != nil {
						return
					}
					got <- string(b[:n])
				}
			}()
		}
	}()

	delivered := false
	var events []string
	deadline := time.After(3 * time.Second)
loop:
	for {
		select {
		case e := <-got:
			events = append(events, e)
			if e == "m1" {
				delivered = true

				break loop
			}
		case <-deadline:
			break loop
		}
	}
	assert.True(t, delivered, "m1 (acknowledged by the peer) was never delivered to the application; events=%v", events)
}

func hunt5IsReconfig(raw []byte) (isReq, isResp bool) {
	p := &packet{}
	if err := p.unmarshal(false, raw); err != nil {
		return false, false
	}
	for _, c := range p.chunks {
		if rc, ok := c.(*chunkReconfig); ok {
			if _, ok := rc.paramA.(*paramOutgoingResetRequest); ok {
				isReq = true
			}
			if _, ok := rc.paramA.(*paramReconfigResponse); ok {
				isResp = true
			}
		}
	}

	return isReq, isResp
}

// Same defect without any duplication by the network: only losses. a0's
// response to a1's reset request is lost (and so are a1's first retransmissions
// of the request); meanwhile both sides closed the channel and re-used the id.
// When a later retransmission of the old request gets through, a0 resets the
// new stream.
func TestHunt5bRetransmittedResetRequestKillsReusedStream(t *testing.T) {
	br := test.NewBridge()
	a0, a1, err := createNewAssociationPair(br, ackModeNoDelay, 0)
	require.NoError(t, err)
	defer closeAssociationPair(br, a0, a1)

	s0, s1, err := establishSessionPair(br, a0, a1, 1)
	require.NoError(t, err)

	var mu sync.Mutex
	faulty := true
	nReq := 0
	// a0 -> a1: responses are lost while the network is faulty.
	br.Filter(0, func(raw []byte) bool {
		mu.Lock()
		defer mu.Unlock()
		_, isResp := hunt5IsReconfig(raw)

		return !(faulty && isResp)
	})
	// a1 -> a0: retransmissions of the request are lost while the network is faulty.
	br.Filter(1, func(raw []byte) bool {
		mu.Lock()
		defer mu.Unlock()
		isReq, _ := hunt5IsReconfig(raw)
		if isReq {
			nReq++

			return !(faulty && nReq > 1)
		}

		return true
	})

	require.NoError(t, s1.Close()) // request X: performed by a0, response lost
	hunt5Pump(br, a0, a1)
	require.NoError(t, s0.Close()) // request Y: performed by a1, answered
	hunt5Pump(br, a0, a1)
	require.Equal(t, StreamStateClosed, s1.State(), "a1 considers generation 1 closed")
	a0.lock.RLock()
	_, still0 := a0.streams[1]
	a0.lock.RUnlock()
	a1.lock.RLock()
	_, still1 := a1.streams[1]
	a1.lock.RUnlock()
	require.False(t, still0)
	require.False(t, still1)

	// Generation 2 re-uses the id.
	s0b, s1b, err := establishSessionPair(br, a0, a1, 1)
	require.NoError(t, err)
	_, err = s1b.WriteSCTP([]byte("m0"), PayloadTypeWebRTCBinary)
	require.NoError(t, err)
	hunt5Pump(br, a0, a1)
	buf := make([]byte, 64)
	n, _, err := s0b.ReadSCTP(buf)
	require.NoError(t, err)
	require.Equal(t, "m0", string(buf[:n]))

	// ---- the network heals ----
	mu.Lock()
	faulty = false
	mu.Unlock()

	// a1's T-reconfig retransmits X (1s, 2s, 4s back-off); wait until a0 has answered it.
	deadline := time.Now().Add(8 * time.Second)
	for time.Now().Before(deadline) {
		br.Tick()
		time.Sleep(time.Millisecond)
		a1.lock.RLock()
		n := len(a1.reconfigs)
		a1.lock.RUnlock()
		if n == 0 {
			break
		}
	}

	_, err = s1b.WriteSCTP([]byte("m1"), PayloadTypeWebRTCBinary)
	require.NoError(t, err)
	hunt5Pump(br, a0, a1)
	require.Equal(t, 0, a1.BufferedAmount(), "m1 was acknowledged by a0")

	got := make(chan string, 4)
	go func() {
		b := make([]byte, 64)
		for {
			n, _, err := s0b.ReadSCTP(b)
			if err != nil {
				got <- "s0b: read error " + err.Error()

				return
			}
			got <- "s0b: " + string(b[:n])
		}
	}()
	go func() {
		for {
			s, err := a0.AcceptStream()
			if err != nil {
				return
			}
			go func() {
				b := make([]byte, 64)
				for {
					n, _, err := s.ReadSCTP(b)
					if err != nil {
						return
					}
					got <- "newly accepted stream: " + string(b[:n])
				}
			}()
		}
	}()

	delivered := false
	var events []string
	timeout := time.After(2 * time.Second)
loop:
	for {
		select {
		case e := <-got:
			events = append(events, e)
			if e == "s0b: m1" {
				delivered = true

				break loop
			}
		case <-timeout:
			break loop
		}
	}
	assert.True(t, delivered, "m1 must be delivered on the live stream s0b; events=%v", events)
}
