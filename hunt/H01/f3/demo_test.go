package sctp

// Finding 3 (C03): the cap on stored outgoing-reset requests (maxReconfigRequests)
// is bypassed by a request whose Sender's Last TSN is exactly 2^31 ahead of the
// receiver's cumulative TSN; the number of stored requests -- and with it the work
// and the number of RE-CONFIG responses generated for every later in-sequence
// TSN -- is unbounded.
//
// Copy to the package root as zz_f3_test.go and run:
//   go test -count=1 -run 'TestF3' -v .

import (
	"net"
	"testing"
	"time"

	"github.com/pion/logging"
	"github.com/stretchr/testify/require"
)

type f3NopConn struct{ closed chan struct{} }

func (c *f3NopConn) Read(_ []byte) (int, error)  { <-c.closed; return 0, net.ErrClosed }
func (c *f3NopConn) Write(p []byte) (int, error) { return len(p), nil }
func (c *f3NopConn) Close() error {
	select {
	case <-c.closed:
	default:
		close(c.closed)
	}

	return nil
}
func (c *f3NopConn) LocalAddr() net.Addr                { return &net.IPAddr{} }
func (c *f3NopConn) RemoteAddr() net.Addr               { return &net.IPAddr{} }
func (c *f3NopConn) SetDeadline(_ time.Time) error      { return nil }
func (c *f3NopConn) SetReadDeadline(_ time.Time) error  { return nil }
func (c *f3NopConn) SetWriteDeadline(_ time.Time) error { return nil }

const f3PeerInitTSN = uint32(1000)

func f3Assoc(t *testing.T) *Association {
	t.Helper()
	lf := logging.NewDefaultLoggerFactory()
	lf.DefaultLogLevel = logging.LogLevelDisabled
	a, err := createServerAssociation(Config{
		NetConn:       &f3NopConn{closed: make(chan struct{})},
		LoggerFactory: lf,
	}, WithEnableInterleaving(false))
	require.NoError(t, err)
	a.lock.Lock()
	a.payloadQueue.init(f3PeerInitTSN - 1)
	a.peerVerificationTag = 0x1234
	a.sourcePort, a.destinationPort = 5000, 5000
	a.setState(established)
	a.lock.Unlock()
	t.Cleanup(func() { _ = a.close() })

	return a
}

func f3Packet(t *testing.T, a *Association, cs ...chunk) []byte {
	t.Helper()
	p := &packet{sourcePort: 5000, destinationPort: 5000, verificationTag: a.myVerificationTag, chunks: cs}
	raw, err := p.marshal(true)
	require.NoError(t, err)
	require.LessOrEqual(t, len(raw), int(receiveMTU))

	return raw
}

func f3SendRequests(t *testing.T, a *Association, n int, senderLastTSN uint32) {
	t.Helper()
	for sent := 0; sent < n; {
		var cs []chunk
		for i := 0; i < 300 && sent < n; i++ {
			cs = append(cs, &chunkReconfig{paramA: &paramOutgoingResetRequest{
				reconfigRequestSequenceNumber: uint32(sent), //nolint:gosec
				senderLastTSN:                 senderLastTSN,
				streamIdentifiers:             []uint16{9},
			}})
			sent++
		}
		require.NoError(t, a.handleInbound(f3Packet(t, a, cs...)))
		a.gatherOutbound() // flush the "in progress" responses
	}
}

func TestF3ReconfigRequestCapBypass(t *testing.T) {
	// control: an ordinary "future" Sender's Last TSN is capped
	ctl := f3Assoc(t)
	f3SendRequests(t, ctl, 5*maxReconfigRequests, ctl.peerLastTSN()+100)
	require.LessOrEqual(t, len(ctl.reconfigRequests), maxReconfigRequests, "control: cap works")

	// Sender's Last TSN exactly 2^31 ahead of the cumulative TSN
	a := f3Assoc(t)
	f3SendRequests(t, a, 5*maxReconfigRequests, a.peerLastTSN()+1<<31)

	a.lock.Lock()
	stored := len(a.reconfigRequests)
	a.lock.Unlock()

	// one ordinary in-sequence DATA chunk now costs one response per stored request
	start := time.Now()
	require.NoError(t, a.handleInbound(f3Packet(t, a, &chunkPayloadData{
		tsn: f3PeerInitTSN, streamIdentifier: 1, unordered: true, beginningFragment: true, endingFragment: true,
		payloadType: PayloadTypeWebRTCBinary, userData: []byte{1},
	})))
	outs, _ := a.gatherOutbound()
	t.Logf("stored reconfig requests: %d (cap %d); one 32-byte DATA packet -> %d outbound packets in %v",
		stored, maxReconfigRequests, len(outs), time.Since(start))

	require.LessOrEqual(t, stored, maxReconfigRequests,
		"the cap on outstanding reconfig requests was bypassed")
}
