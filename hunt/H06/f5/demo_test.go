// SPDX-FileCopyrightText: 2026 The Pion community <https://pion.ly>
// SPDX-License-Identifier: MIT

package sctp

import (
	"sync"
	"testing"
	"time"

	"github.com/pion/logging"
	"github.com/pion/transport/v4/test"
	"github.com/stretchr/testify/assert"
	"github.com/stretchr/testify/require"
)

// WithRTOMax accepts any positive value, including one below RTO.Min (1 s). The RTO
// manager then reports an initial RTO above the configured maximum and, after the
// first round-trip sample, an RTO below the protocol minimum.
func TestHunt5_RTOManagerWithMaxBelowMin(t *testing.T) {
	cfg := Config{}
	require.NoError(t, WithRTOMax(200).applyClient(&cfg), "the option accepts RTO.Max = 200 ms")

	mgr := newRTOManager(cfg.RTOMax)
	assert.LessOrEqual(t, mgr.getRTO(), cfg.RTOMax, "initial RTO exceeds the configured maximum")

	for _, rtt := range []float64{0, 10, 100, 5000, 1e300} {
		mgr.setNewRTT(rtt)
		assert.GreaterOrEqual(t, mgr.getRTO(), rtoMin, "RTO after sample %v is below the protocol minimum", rtt)
	}
}

// Same at the association level: with RTO.Max = 200 ms the INIT is retransmitted every
// 200 ms, i.e. the retransmission timeout actually used is far below one second.
func TestHunt5_InitRetransmittedFasterThanRTOMin(t *testing.T) {
	lim := test.TimeOut(10 * time.Second)
	defer lim.Stop()

	br := test.NewBridge()

	var mu sync.Mutex
	var initTimes []time.Time
	br.Filter(0, func(raw []byte) bool {
		if len(raw) > int(commonHeaderSize) && chunkType(raw[commonHeaderSize]) == ctInit {
			mu.Lock()
			initTimes = append(initTimes, time.Now())
			mu.Unlock()
		}

		return false // the peer never sees anything
	})

	done := make(chan error, 1)
	go func() {
		_, err := ClientWithOptions(
			WithName("client"),
			WithNetConn(br.GetConn0()),
			WithLoggerFactory(logging.NewDefaultLoggerFactory()),
			WithRTOMax(200),
		)
		done <- err
	}()

	time.Sleep(950 * time.Millisecond)

	mu.Lock()
	n := len(initTimes)
	mu.Unlock()

	// One second has not yet elapsed since the first INIT: with a retransmission timeout
	// of at least RTO.Min there can be no retransmission yet.
	assert.Equal(t, 1, n, "INIT transmissions within the first 950 ms (RTO.Min is 1000 ms)")

	select {
	case err := <-done:
		assert.Error(t, err)
	case <-time.After(5 * time.Second):
		assert.Fail(t, "connect did not fail")
	}
	_ = br.GetConn0().Close()
	_ = br.GetConn1().Close()
	br.Tick()
}
