package sctp

import (
	"errors"
	"io"
	"sync/atomic"
	"testing"
	"time"

	"github.com/pion/transport/v4/test"
	"github.com/stretchr/testify/require"
)

// C14: a RECONFIG response is lost; the (retransmitted) Outgoing SSN Reset
// Request of the OLD incarnation is applied a second time and resets the NEW
// incarnation of the same stream identifier.
func TestHunt1StaleResetRequestKillsReopenedStream(t *testing.T) {
	lim := test.TimeOut(20 * time.Second)
	defer lim.Stop()

	const si uint16 = 1
	br := test.NewBridge()

	a0, a1, err := createNewAssociationPair(br, ackModeNoDelay, 0)
	require.NoError(t, err)
	defer closeAssociationPair(br, a0, a1)

	s0, s1, err := establishSessionPair(br, a0, a1, si)
	require.NoError(t, err)

	// Lose exactly one packet: the first RECONFIG response sent by a1.
	var dropped int32
	br.Filter(1, func(raw []byte) bool {
		p := &packet{}
		if err := p.unmarshal(true, raw); err != nil {
			return true
		}
		for _, c := range p.chunks {
			rc, ok := c.(*chunkReconfig)
			if !ok {
				continue
			}
			if _, isResp := rc.paramA.(*paramReconfigResponse); isResp {
				if atomic.CompareAndSwapInt32(&dropped, 0, 1) {
					return false
				}
			}
		}

		return true
	})

	pump := func(cond func() bool) {
		t.Helper()
		deadline := time.Now().Add(8 * time.Second)
		for !cond() {
			require.True(t, time.Now().Before(deadline), "condition not reached")
			br.Tick()
			time.Sleep(2 * time.Millisecond)
		}
	}

	// a0 closes its outgoing direction. a1 performs the reset (EOF), the response is lost.
	require.NoError(t, s0.Close())
	pump(func() bool {
		s1.lock.RLock()
		defer s1.lock.RUnlock()

		return errors.Is(s1.readErr, io.EOF)
	})
	require.EqualValues(t, 1, atomic.LoadInt32(&dropped))

	// a1 closes the other direction; a0 performs it and a1 receives the response.
	require.NoError(t, s1.Close())
	pump(func() bool {
		a1.lock.RLock()
		defer a1.lock.RUnlock()

		return s0.State() == StreamStateClosed && len(a1.reconfigs) == 0
	})
	// Both directions have now been reset: neither side knows the id any more.
	a0.lock.RLock()
	_, ok0 := a0.streams[si]
	a0.lock.RUnlock()
	a1.lock.RLock()
	_, ok1 := a1.streams[si]
	a1.lock.RUnlock()
	require.False(t, ok0)
	require.False(t, ok1)

	// a1 (which saw both resets complete) re-opens the identifier.
	n1, err := a1.OpenStream(si, PayloadTypeWebRTCBinary)
	require.NoError(t, err)
	_, err = n1.WriteSCTP([]byte("m1"), PayloadTypeWebRTCBinary)
	require.NoError(t, err)

	var n0 *Stream
	accepted := make(chan *Stream, 1)
	go func() {
		s, aerr := a0.AcceptStream()
		if aerr == nil {
			accepted <- s
		}
	}()
	pump(func() bool {
		select {
		case n0 = <-accepted:
			return true
		default:
			return false
		}
	})
	buf := make([]byte, 64)
	require.NoError(t, n0.SetReadDeadline(time.Now().Add(3*time.Second)))
	n, _, err := n0.ReadSCTP(buf)
	require.NoError(t, err)
	require.Equal(t, "m1", string(buf[:n]))

	// Let a0's Re-configuration timer expire: it retransmits the old request.
	end := time.Now().Add(2500 * time.Millisecond)
	pump(func() bool { return time.Now().After(end) })

	// The new incarnation must still work in the a0 -> a1 direction.
	_, err = n0.WriteSCTP([]byte("m2"), PayloadTypeWebRTCBinary)
	require.NoError(t, err)
	end = time.Now().Add(300 * time.Millisecond)
	pump(func() bool { return time.Now().After(end) })

	require.NoError(t, n1.SetReadDeadline(time.Now().Add(2*time.Second)))
	done := make(chan struct{})
	go func() {
		defer close(done)
		n, _, err = n1.ReadSCTP(buf)
	}()
	pump(func() bool {
		select {
		case <-done:
			return true
		default:
			return false
		}
	})
	require.NoError(t, err, "message written on the re-opened stream must be delivered")
	require.Equal(t, "m2", string(buf[:n]))
}
