package main

import (
	"fmt"
	"go/constant"
	"go/token"
	"go/types"
	"strings"

	"golang.org/x/tools/go/ssa"
)

// geMTU: v has symbolic lower bound >= MTU() under the hypothesis CWND() >= MTU().
func (c *RuleCtx) geMTU(v ssa.Value, at ssa.Instruction, depth int) (bool, string) {
	mtu, cwnd := c.Fn("Association.MTU"), c.Fn("Association.CWND")
	max32, min32 := c.Fn("max32"), c.Fn("min32")
	ssth := c.field("Association", "ssthresh")
	v = unconv(v)
	if depth > 6 {
		return false, "too deep"
	}
	if IsCallOf(mtu)(v) {
		return true, "MTU()"
	}
	if IsCallOf(cwnd)(v) {
		return true, "CWND() (induction hypothesis)"
	}
	switch x := v.(type) {
	case *ssa.BinOp:
		switch x.Op {
		case token.MUL:
			if k, ok := constInt(x.X); ok && k >= 1 {
				if ok2, w := c.geMTU(x.Y, at, depth+1); ok2 {
					return true, fmt.Sprintf("%d*%s", k, w)
				}
			}
			if k, ok := constInt(x.Y); ok && k >= 1 {
				if ok2, w := c.geMTU(x.X, at, depth+1); ok2 {
					return true, fmt.Sprintf("%s*%d", w, k)
				}
			}
		case token.ADD:
			if ok, w := c.geMTU(x.X, at, depth+1); ok {
				return true, w + "+…"
			}
			if ok, w := c.geMTU(x.Y, at, depth+1); ok {
				return true, "…+" + w
			}
		}
	case *ssa.Call:
		sc := x.Call.StaticCallee()
		isMax, isMin := sc == max32, sc == min32
		if b, ok := x.Call.Value.(*ssa.Builtin); ok {
			isMax, isMin = b.Name() == "max", b.Name() == "min"
		}
		if isMax {
			for _, a := range x.Call.Args {
				if ok, w := c.geMTU(a, at, depth+1); ok {
					return true, "max(…" + w + "…)"
				}
			}
		}
		if isMin {
			var ws []string
			for _, a := range x.Call.Args {
				ok, w := c.geMTU(a, at, depth+1)
				if !ok {
					return false, "min() argument not bounded: " + shortValue(c.P, a)
				}
				ws = append(ws, w)
			}
			return true, "min(" + strings.Join(ws, ",") + ")"
		}
	case *ssa.UnOp:
		if f, _ := loadedField(x); f == ssth && at != nil {
			// the reaching store in the same block
			b := at.Block()
			for i := instrIndex(at) - 1; i >= 0; i-- {
				if st, ok := b.Instrs[i].(*ssa.Store); ok && fieldOfAddr(st.Addr) == ssth {
					ok2, w := c.geMTU(st.Val, st, depth+1)
					return ok2, "ssthresh=" + w
				}
			}
			return false, "no reaching ssthresh store in the block"
		}
	}
	return false, "no lower bound for " + shortValue(c.P, v)
}

func isParamLoadOrPhi(v ssa.Value) bool {
	switch v.(type) {
	case *ssa.Parameter, *ssa.Phi:
		return true
	}
	return false
}

func init() {
	register(&Rule{ID: "C10.R1", Props: []string{"C10"}, Engine: "E2",
		Title:   "single writers with floor: cwnd is stored only by setCWND (which only raises its argument to minCwnd), rwnd only by setRWND, the MTU only at construction",
		MinInst: 4,
		Run: func(c *RuleCtx) {
			c.WritersWithin("cwnd", c.field("Association", "cwnd"), "Association.setCWND")
			c.WritersWithin("rwnd", c.field("Association", "rwnd"), "Association.setRWND")
			c.WritersWithin("mtu", c.field("Association", "mtu"), "createAssociationFromConfigWithTsn")
			sc := c.Fn("Association.setCWND")
			minC := c.field("Association", "minCwnd")
			for _, a := range c.P.Writes(c.field("Association", "cwnd")) {
				phi, ok := a.Val.(*ssa.Phi)
				okFloor := false
				if ok && len(phi.Edges) == 2 {
					hasParam, hasMin := false, false
					for i, e := range phi.Edges {
						if IsParam(sc, 1)(e) {
							hasParam = true
						}
						if IsLoadOf(minC)(e) {
							// the edge leaves the then-branch of "cwnd < minCwnd"
							hasMin = factsAt(phi.Block().Preds[i], CmpCond(token.LSS, IsParam(sc, 1), IsLoadOf(minC)))
						}
					}
					okFloor = hasParam && hasMin
				} else if IsParam(sc, 1)(a.Val) {
					okFloor = true
				} else if call, isCall := unconv(a.Val).(*ssa.Call); isCall {
					// builtin max(arg, minCwnd), either order
					if b, isB := call.Call.Value.(*ssa.Builtin); isB && b.Name() == "max" && len(call.Call.Args) == 2 {
						x, y := call.Call.Args[0], call.Call.Args[1]
						okFloor = (IsParam(sc, 1)(x) && IsLoadOf(minC)(y)) || (IsParam(sc, 1)(y) && IsLoadOf(minC)(x))
					}
				}
				c.Check(okFloor, "cwnd-floor", c.Pos(a.Instr), "stored cwnd is the argument, or minCwnd when the argument is smaller", "setCWND stores something other than max(arg, minCwnd)")
			}
		}})

	register(&Rule{ID: "C10.R2", Props: []string{"C10"}, Engine: "E6-symbolic-bound",
		Title:   "cwnd ≥ one MTU is inductive: under the hypothesis CWND() ≥ MTU(), every value passed to setCWND has a symbolic lower bound ≥ MTU()",
		MinInst: 5,
		Run: func(c *RuleCtx) {
			ks := keyer{}
			for _, cs := range c.P.CallSitesOf(c.Fn("Association.setCWND")) {
				ok, why := c.geMTU(callArg(cs.Instr, 1), cs.Instr, 0)
				c.Check(ok, ks.key("cwnd>=mtu@"+c.P.FuncName(cs.Fn)), c.Pos(cs.Instr), "argument ≥ MTU(): "+why, "cwnd can fall below one MTU here: "+why)
			}
		}})

	register(&Rule{ID: "C10.R3", Props: []string{"C10"}, Engine: "E3",
		Title:   "every loss signal cuts the window: T3 expiry sets ssthresh=max(cwnd/2,4·MTU) and cwnd=MTU; entering fast recovery sets the same ssthresh, cwnd=ssthresh and clears partial_bytes_acked",
		MinInst: 8,
		Run: func(c *RuleCtx) {
			ssth := c.field("Association", "ssthresh")
			pba := c.field("Association", "partialBytesAcked")
			mtu, cwnd, max32 := c.Fn("Association.MTU"), c.Fn("Association.CWND"), c.Fn("max32")
			setC := c.Fn("Association.setCWND")
			halfOr4 := func(v ssa.Value) bool {
				call, ok := isCallTo(unconv(v), max32)
				if !ok {
					return false
				}
				a, b := call.Call.Args[0], call.Call.Args[1]
				half := func(x ssa.Value) bool {
					bo, ok := unconv(x).(*ssa.BinOp)
					return ok && bo.Op == token.QUO && IsCallOf(cwnd)(bo.X) && IsConstInt(2)(bo.Y)
				}
				four := BinV(token.MUL, IsConstInt(4), IsCallOf(mtu))
				return (half(a) && four(b)) || (half(b) && four(a))
			}
			// T3
			ort := c.Fn("Association.onRetransmissionTimeout")
			t3 := c.P.Const("timerT3RTX")
			var t3v int64
			fmt.Sscan(t3.Val().String(), &t3v)
			forEachInstr(ort, func(in ssa.Instruction) {
				ifi, ok := in.(*ssa.If)
				if !ok {
					return
				}
				cv, t := normCond(ifi.Cond, true)
				if !CmpCond(token.EQL, IsParam(ort, 1), IsConstInt(t3v))(cv, t) {
					return
				}
				succ := ifi.Block().Succs[0]
				ok1, _ := MustPassFromBlock(succ, func(x ssa.Instruction) bool {
					st, ok := x.(*ssa.Store)
					return ok && fieldOfAddr(st.Addr) == ssth && halfOr4(st.Val)
				}, PathOpts{})
				c.Check(ok1, "t3-ssthresh", c.Pos(ifi), "T3 ⇒ ssthresh = max32(CWND()/2, 4*MTU())", "T3 path does not halve ssthresh (floored at 4 MTU)")
				ok2, _ := MustPassFromBlock(succ, func(x ssa.Instruction) bool {
					ci, ok := x.(ssa.CallInstruction)
					return ok && ci.Common().StaticCallee() == setC && IsCallOf(mtu)(ci.Common().Args[1])
				}, PathOpts{})
				c.Check(ok2, "t3-cwnd", c.Pos(ifi), "T3 ⇒ setCWND(MTU())", "T3 path does not collapse cwnd to one MTU")
			})
			// fast recovery entry
			pfr := c.Fn("Association.processFastRetransmission")
			inFR := c.field("Association", "inFastRecovery")
			mi := c.field("chunkPayloadData", "missIndicator")
			n := 0
			for _, a := range c.storesInRegion(pfr, inFR) {
				if !IsConstBool(true)(a.Val) {
					continue
				}
				n++
				c.Dom("fr-entry-on-third-miss", a.Instr, CmpCond(token.EQL, IsLoadOf(mi), IsConstInt(3)), "missIndicator == 3")
				// every third miss indication outside fast recovery is a loss signal: no other condition may suppress the cut
				var extra []string
				for _, f := range localFactsUpTo(a.Instr, pfr) {
					lf, _ := loadedField(f.Cond)
					switch {
					case lf != nil && (lf.Name() == "inFastRecovery" || lf.Name() == "acked"):
					case IsCallOf(c.Fn("chunkPayloadData.abandoned"))(f.Cond), isGiveUpCall(c, f.Cond):
					case IsCallOf(c.Fn("sna32LT"))(f.Cond):
					case isParamLoadOrPhi(f.Cond):
					default:
						if b, ok := f.Cond.(*ssa.BinOp); ok {
							if l, _ := loadedField(b.X); l != nil && l.Name() == "missIndicator" {
								continue
							}
						}
						if ex, ok := f.Cond.(*ssa.Extract); ok && ex.Index == 1 {
							continue // ok of inflightQueue.get
						}
						extra = append(extra, fmt.Sprintf("%s=%v", shortValue(c.P, f.Cond), f.Taken))
					}
				}
				c.Check(len(extra) == 0, "fr-entry-no-extra-guard", c.Pos(a.Instr), "the cut depends only on the miss count, fast-recovery state and the chunk being outstanding",
					"an additional condition can suppress the congestion-window cut on a gap-report loss signal: "+strings.Join(extra, ", "))
				c.Dom("fr-entry-not-already", a.Instr, BoolCond(IsLoadOf(inFR), false), "!inFastRecovery")
				ok1, _ := MustPass(a.Instr, func(x ssa.Instruction) bool {
					st, ok := x.(*ssa.Store)
					return ok && fieldOfAddr(st.Addr) == ssth && halfOr4(st.Val)
				}, nil)
				c.Check(ok1, "fr-ssthresh", c.Pos(a.Instr), "fast recovery ⇒ ssthresh = max32(CWND()/2, 4*MTU())", "fast-recovery entry does not cut ssthresh")
				ok2, _ := MustPass(a.Instr, func(x ssa.Instruction) bool {
					ci, ok := x.(ssa.CallInstruction)
					return ok && ci.Common().StaticCallee() == setC && IsLoadOf(ssth)(ci.Common().Args[1])
				}, nil)
				c.Check(ok2, "fr-cwnd", c.Pos(a.Instr), "fast recovery ⇒ setCWND(ssthresh)", "fast-recovery entry does not cut cwnd to ssthresh")
				// the property says the window is CUT on a loss signal: ssthresh = max(cwnd/2, 4·MTU) exceeds cwnd whenever
				// cwnd < 4·MTU (e.g. the initial window), so "cwnd = ssthresh" must not be allowed to raise it
				notRaised := false
				forEachInstr(pfr, func(x ssa.Instruction) {
					ci, ok := x.(ssa.CallInstruction)
					if !ok || ci.Common().StaticCallee() != setC || !CanReach(a.Instr, x) {
						return
					}
					arg := unconv(ci.Common().Args[1])
					isCwnd := func(v ssa.Value) bool {
						call, isCall := unconv(v).(*ssa.Call)
						return isCall && call.Call.StaticCallee() != nil && call.Call.StaticCallee().Name() == "CWND"
					}
					if call, isCall := arg.(*ssa.Call); isCall {
						name := ""
						if sc := call.Call.StaticCallee(); sc != nil {
							name = sc.Name()
						} else if b, isB := call.Call.Value.(*ssa.Builtin); isB {
							name = b.Name()
						}
						if name == "min32" || name == "min" {
							for _, aa := range call.Call.Args {
								if isCwnd(aa) {
									notRaised = true
								}
							}
						}
					}
					for _, ft := range DomFactsX(x.Block()) {
						if b, isB := ft.Cond.(*ssa.BinOp); isB && (isCwnd(b.X) || isCwnd(b.Y)) && (IsLoadOf(ssth)(b.X) || IsLoadOf(ssth)(b.Y)) {
							notRaised = true
						}
					}
				})
				c.Check(notRaised, "fr-cwnd-not-raised", c.Pos(a.Instr), "the new cwnd is min(cwnd, ssthresh)", "entering fast recovery sets cwnd = ssthresh = max(cwnd/2, 4*MTU) unconditionally: for cwnd < 4*MTU the loss signal RAISES the congestion window (4380 -> 4764 from the initial window)")
				ok3, _ := MustPass(a.Instr, func(x ssa.Instruction) bool {
					st, ok := x.(*ssa.Store)
					return ok && fieldOfAddr(st.Addr) == pba && IsConstInt(0)(st.Val)
				}, nil)
				c.Check(ok3, "fr-pba", c.Pos(a.Instr), "fast recovery ⇒ partialBytesAcked = 0", "fast-recovery entry does not clear partial_bytes_acked")
			}
			c.Check(n >= 1, "fr-entry-site", c.P.Pos(pfr.Pos()), "one fast-recovery entry site", fmt.Sprintf("%d entry sites", n))
			// a loss declared by RACK is a loss signal too: where it marks a chunk for retransmission the window is cut
			// (directly, or by entering the same recovery as the gap-report path)
			{
				rtF := c.field("chunkPayloadData", "retransmit")
				for _, name := range []string{"Association.onRackAfterSACK", "Association.onRackTimeoutLocked"} {
					fn := c.P.Fn(name)
					if fn == nil {
						continue
					}
					marks := false
					for _, g := range c.P.Region(fn) {
						for _, a := range c.storesIn(g, rtF) {
							if IsConstBool(true)(a.Val) {
								marks = true
							}
						}
					}
					if !marks {
						continue
					}
					cuts := false
					for g := range c.P.TransitiveCallees(fn) {
						if g == setC {
							cuts = true
						}
						for range c.storesIn(g, ssth) {
							cuts = true
						}
					}
					c.Check(cuts, "rack-loss-cuts-window@"+name, c.P.Pos(fn.Pos()), "a RACK-declared loss reduces cwnd/ssthresh", "a loss declared by RACK marks chunks for retransmission but neither cwnd nor ssthresh is reduced anywhere on that path")
				}
			}
			// miss indications only for unacked, unabandoned chunks, capped at 3
			acked := c.field("chunkPayloadData", "acked")
			for _, a := range c.storesIn(pfr, mi) {
				c.Dom("miss-only-unacked", a.Instr, BoolCond(IsLoadOf(acked), false), "!c.acked")
			}
			// growth only when not in fast recovery (slow start) and never on a non-advancing SACK
			adv := c.Fn("Association.onCumulativeTSNAckPointAdvanced")
			c.CallersWithin("growth", adv, "Association.processAcknowledgement")
			lt := c.Fn("sna32LT")
			for _, cs := range c.P.CallSitesOf(adv) {
				c.Dom("growth-needs-advance", cs.Instr, CallCond(lt, true), "cumulative ack point advanced")
			}
		}})

	register(&Rule{ID: "C10.R4", Props: []string{"C10"}, Engine: "E3",
		Title:   "admission of new data is dominated by both window tests and charges the peer window before the chunk moves in flight",
		MinInst: 4,
		Run: func(c *RuleCtx) {
			pop := c.Fn("Association.popPendingDataChunksToSend")
			move := c.Fn("Association.movePendingDataChunkToInflightQueue")
			rwnd, cwnd := c.Fn("Association.RWND"), c.Fn("Association.CWND")
			setR := c.Fn("Association.setRWND")
			inflightBytes := c.Fn("payloadQueue.getNumBytes")
			n := 0
			for _, mc := range callsInDeep(pop, move, 1) {
				underC := DominatedByExt(mc, CmpCond(token.LEQ, Derives(IsCallOf(inflightBytes)), IsCallOf(cwnd)))
				underR := DominatedByExt(mc, CmpCond(token.LEQ, AnyV, IsCallOf(rwnd)))
				if !underC && !underR {
					continue // the zero-window probe (C02.R4)
				}
				n++
				c.Check(underC, "admit-under-cwnd", c.Pos(mc), "dominated by inflightBytes+len <= CWND()", "admission not guarded by the congestion window")
				c.Check(underR, "admit-under-rwnd", c.Pos(mc), "dominated by len <= RWND()", "admission not guarded by the peer receive window")
				// the cwnd test includes the candidate's length
				okLen := DominatedByExt(mc, CmpCond(token.LEQ, BinV(token.ADD, Derives(IsCallOf(inflightBytes)), AnyV), IsCallOf(cwnd)))
				c.Check(okLen, "admit-cwnd-includes-candidate", c.Pos(mc), "cwnd test adds the candidate chunk's length", "cwnd test ignores the candidate's length")
				// rwnd charged before the move
				charged := false
				for _, sc := range callsIn(pop, setR) {
					if InstrDominates(sc, mc) && BinV(token.SUB, IsCallOf(rwnd), AnyV)(callArg(sc, 1)) && sc.Block() == mc.Block() {
						charged = true
					}
				}
				c.Check(charged, "admit-charges-rwnd", c.Pos(mc), "setRWND(RWND()-len) precedes the move", "peer window not charged for admitted data")
			}
			c.Check(n >= 1, "admit-site", c.P.Pos(pop.Pos()), "one window-guarded admission site", fmt.Sprintf("%d guarded admission sites", n))
			c.CallersWithin("move", move, "Association.popPendingDataChunksToSend")
		}})

	register(&Rule{ID: "C10.R5", Props: []string{"C10"}, Engine: "E3",
		Title:   "rwnd is recomputed on every SACK as a_rwnd minus outstanding bytes, floored at zero",
		MinInst: 3,
		Run: func(c *RuleCtx) {
			hs := c.Fn("Association.handleSack")
			setR := c.Fn("Association.setRWND")
			arw := c.field("chunkSelectiveAck", "advertisedReceiverWindowCredit")
			out := Derives(IsCallOf(c.Fn("payloadQueue.getNumBytes")))
			nZ, nD := 0, 0
			for _, sc := range callsIn(hs, setR) {
				// every value the new window can take: 0 when outstanding >= a_rwnd, a_rwnd − outstanding when outstanding < a_rwnd
				for _, lf := range leavesWithFacts(callArg(sc, 1)) {
					facts := append(append([]condFact{}, lf.Facts...), DomFactsX(sc.Block())...)
					has := func(p CondPat) bool {
						for _, f := range facts {
							if p(f.Cond, f.Taken) {
								return true
							}
						}
						return false
					}
					if IsConstInt(0)(lf.Val) {
						nZ++
						c.Check(has(CmpCond(token.GEQ, out, IsLoadOf(arw))), "rwnd-zero-when-exceeded", c.Pos(sc), "window 0 chosen under outstanding >= a_rwnd", "window set to 0 without outstanding >= a_rwnd")
					} else {
						nD++
						c.Check(BinV(token.SUB, IsLoadOf(arw), out)(lf.Val), "rwnd-difference", c.Pos(sc), "setRWND(a_rwnd - outstanding)", "rwnd not computed as a_rwnd - outstanding")
						c.Check(has(CmpCond(token.LSS, out, IsLoadOf(arw))), "rwnd-difference-guarded", c.Pos(sc), "difference chosen under outstanding < a_rwnd", "a_rwnd - outstanding used without outstanding < a_rwnd (unsigned wrap)")
					}
				}
			}
			c.Check(nZ >= 1 && nD >= 1, "rwnd-sites", c.P.Pos(hs.Pos()), fmt.Sprintf("zero=%d diff=%d", nZ, nD), fmt.Sprintf("zero=%d diff=%d", nZ, nD))
			// both are reached only after the SACK was processed
			for _, sc := range callsIn(hs, setR) {
				for _, pc := range callsIn(hs, c.Fn("Association.processAcknowledgement")) {
					c.Check(InstrDominates(pc, sc), "rwnd-after-ack-processing", c.Pos(sc), "rwnd recomputed after the acknowledged bytes were released", "rwnd recomputed before acknowledgement processing")
				}
			}
		}})

	register(&Rule{ID: "C10.R6", Props: []string{"C10", "C12"}, Engine: "E2+E1",
		Title:   "MTU: DATA chunks reach packets only through the MTU-bounded bundler; fragments are at most maxPayloadSize, which is derived from the MTU and the negotiated framing with the codec's own header sizes",
		MinInst: 10,
		Run: func(c *RuleCtx) {
			ks := keyer{}
			for _, fn := range c.P.Funcs {
				forEachInstr(fn, func(in ssa.Instruction) {
					mi, ok := in.(*ssa.MakeInterface)
					if !ok || typeShort(mi.X.Type()) != "*chunkPayloadData" || typeShort(mi.Type()) != "chunk" {
						return
					}
					n := c.P.FuncName(fn)
					c.Check(n == "Association.bundleDataChunksIntoPackets" || n == "packet.unmarshal", ks.key("data-into-packet@"+n), c.Pos(in),
						"DATA chunk becomes a packet chunk only in the bundler / decoder", "a DATA chunk is put into a packet outside bundleDataChunksIntoPackets (no MTU test)")
				})
			}
			bd := c.Fn("Association.bundleDataChunksIntoPackets")
			mtu := c.Fn("Association.MTU")
			var flush *ssa.If
			overflowSucc := 0
			sizeP := Derives(IsCallOf(c.Fn("chunkPayloadData.chunkSizeInPacket")))
			mtuP := Derives(IsCallOf(mtu))
			forEachInstr(bd, func(in ssa.Instruction) {
				ifi, ok := in.(*ssa.If)
				if !ok {
					return
				}
				b, ok := ifi.Cond.(*ssa.BinOp)
				if !ok {
					return
				}
				// normalise to "size > mtu": which successor is the overflow side?
				switch {
				case b.Op == token.GTR && sizeP(b.X) && mtuP(b.Y), b.Op == token.LSS && mtuP(b.X) && sizeP(b.Y):
					flush, overflowSucc = ifi, 0
				case b.Op == token.LEQ && sizeP(b.X) && mtuP(b.Y), b.Op == token.GEQ && mtuP(b.X) && sizeP(b.Y):
					flush, overflowSucc = ifi, 1
				}
			})
			if flush == nil {
				c.Fail("bundle-flush-test", c.P.Pos(bd.Pos()), "bytesInPacket+chunkSize > MTU() test not found in the bundler")
			} else {
				ok, _ := MustPassFromBlock(flush.Block().Succs[overflowSucc], c.P.CallTargetPred(0, c.Fn("Association.createPacket")), PathOpts{})
				c.Check(ok, "bundle-flush-test", c.Pos(flush), "exceeding the MTU flushes the current packet before the chunk is added", "MTU overflow does not start a new packet")
				// every append of a chunk happens after the test
				forEachInstr(bd, func(in ssa.Instruction) {
					if mi, ok := in.(*ssa.MakeInterface); ok && typeShort(mi.X.Type()) == "*chunkPayloadData" {
						c.Check(flush.Block().Dominates(mi.Block()), "bundle-test-dominates-add", c.Pos(in), "the MTU test dominates adding the chunk", "chunk added without passing the MTU test")
					}
				})
			}
			// fragment size
			pk := c.Fn("Stream.packetize")
			mps := c.field("Association", "maxPayloadSize")
			min32 := c.Fn("min32")
			okFrag := false
			forEachInstr(pk, func(in ssa.Instruction) {
				if ms, ok := in.(*ssa.MakeSlice); ok {
					// the length is min32(maxPayloadSize, …), possibly written as (offset + min32(…)) − offset
					l := unconv(ms.Len)
					if sub, isSub := l.(*ssa.BinOp); isSub && sub.Op == token.SUB {
						if add, isAdd := unconv(sub.X).(*ssa.BinOp); isAdd && add.Op == token.ADD {
							switch {
							case sameExpr(add.X, sub.Y, 0):
								l = unconv(add.Y)
							case sameExpr(add.Y, sub.Y, 0):
								l = unconv(add.X)
							}
						}
					}
					if call, ok := isCallTo(l, min32); ok && (IsLoadOf(mps)(call.Call.Args[0]) || IsLoadOf(mps)(call.Call.Args[1])) {
						okFrag = true
					}
					if call, ok := l.(*ssa.Call); ok {
						if b, isB := call.Call.Value.(*ssa.Builtin); isB && b.Name() == "min" {
							for _, a := range call.Call.Args {
								if IsLoadOf(mps)(a) {
									okFrag = true
								}
							}
						}
					}
				}
			})
			c.Check(okFrag, "fragment-size", c.P.Pos(pk.Pos()), "fragment = make([]byte, min32(maxPayloadSize, remaining))", "fragment size not bounded by maxPayloadSize")
			// maxPayloadSize provenance
			mpf := c.Fn("maxPayloadSizeForMTU")
			uI := c.field("Association", "useInterleaving")
			for _, a := range c.P.Writes(mps) {
				call, ok := isCallTo(unconv(a.Val), mpf)
				if !ok {
					c.Fail(ks.key("maxPayloadSize-source@"+c.P.FuncName(a.Fn)), c.Pos(a.Instr), "maxPayloadSize not computed by maxPayloadSizeForMTU")
					continue
				}
				flag := call.Call.Args[1]
				okFlag := IsConstBool(false)(flag) && c.P.FuncName(a.Fn) == "createAssociationFromConfigWithTsn"
				if !okFlag {
					// must equal the value stored to useInterleaving in the same function
					for _, s := range c.storesIn(a.Fn, uI) {
						if sameVal(s.Val, flag) {
							okFlag = true
						}
					}
				}
				c.Check(okFlag, ks.key("maxPayloadSize-source@"+c.P.FuncName(a.Fn)), c.Pos(a.Instr), "maxPayloadSizeForMTU(mtu, <framing in use>)", "payload size computed for a different framing than the one in use")
			}
			// header arithmetic by partial evaluation on the decision inputs (framing flag) with a symbolic check on constants
			want := map[bool]int64{false: 12 + 4 + 12, true: 12 + 4 + 16}
			for _, inter := range []bool{false, true} {
				for _, m := range []int64{1200, 1191, 576, 28, 32, 33} {
					outs, und := c.P.PEval(mpf, PEConfig{Params: map[int]constant.Value{0: constant.MakeInt64(m), 1: constant.MakeBool(inter)}})
					key := fmt.Sprintf("payload-size:mtu=%d,interleaving=%v", m, inter)
					if und != "" || len(outs) != 1 || outs[0].Ret[0] == nil {
						c.Fail(key, c.P.Pos(mpf.Pos()), "UNDECIDED")
						continue
					}
					got, _ := constant.Int64Val(outs[0].Ret[0])
					exp := int64(0)
					if m > want[inter] {
						exp = (m - want[inter]) / 4 * 4
					}
					c.Check(got == exp, key, c.P.Pos(mpf.Pos()), fmt.Sprintf("= %d (mtu - %d header bytes, 4-aligned)", got, want[inter]), fmt.Sprintf("got %d want %d: packets would exceed the MTU or waste it", got, exp))
				}
			}
			// chunkSize uses the same header constants
			cs := c.Fn("chunkPayloadData.chunkSize")
			consts := map[int64]bool{}
			forEachInstr(cs, func(in ssa.Instruction) {
				if b, ok := in.(*ssa.BinOp); ok && b.Op == token.ADD {
					if k, ok := constInt(b.X); ok {
						consts[k] = true
					}
					if k, ok := constInt(b.Y); ok {
						consts[k] = true
					}
				}
			})
			// the bundler's estimate is the marshalled size: header + payload rounded up to 4, for both framings
			csp := c.Fn("chunkPayloadData.chunkSizeInPacket")
			ud := c.field("chunkPayloadData", "userData")
			idf := c.field("chunkPayloadData", "iData")
			typf := c.field("chunkHeader", "typ")
			for _, inter := range []bool{false, true} {
				hdr := int64(16)
				if inter {
					hdr = 20
				}
				for n := int64(1); n <= 9; n++ {
					key := fmt.Sprintf("size-in-packet:len=%d,idata=%v", n, inter)
					outs, und := c.P.PEval(csp, PEConfig{
						Fields: map[*types.Var]constant.Value{idf: constant.MakeBool(inter), typf: constant.MakeInt64(0)},
						BindVal: func(v ssa.Value) (constant.Value, bool) {
							if call, ok := v.(*ssa.Call); ok {
								if b, isB := call.Call.Value.(*ssa.Builtin); isB && b.Name() == "len" && len(call.Call.Args) == 1 && IsLoadOf(ud)(call.Call.Args[0]) {
									return constant.MakeInt64(n), true
								}
							}
							return nil, false
						}})
					if und != "" || len(outs) == 0 {
						c.Fail(key, c.P.Pos(csp.Pos()), "UNDECIDED: "+und)
						continue
					}
					exp := (hdr + n + 3) / 4 * 4
					bad := ""
					for _, o := range outs {
						if len(o.Ret) != 1 || o.Ret[0] == nil {
							bad = "size does not fold to a constant"
						} else if got, _ := constant.Int64Val(o.Ret[0]); got != exp {
							bad = fmt.Sprintf("estimate %d, marshalled size %d", got, exp)
						}
					}
					c.Check(bad == "", key, c.P.Pos(csp.Pos()), fmt.Sprintf("= %d (header %d + payload, padded to 4)", exp, hdr), "the bundler's per-chunk size differs from what packet.marshal emits ("+bad+"): bundled packets exceed the MTU")
				}
			}
			_ = consts // the header sizes are decided by the size-in-packet table above
		}})
}

// C10.R7 — unsigned window arithmetic cannot wrap.
func init() {
	register(&Rule{ID: "C10.R7", Props: []string{"C10"}, Engine: "E3",
		Title:   "window arithmetic cannot wrap: every unsigned subtraction in the backward slice of a value written to rwnd, cwnd or ssthresh is dominated by a comparison showing minuend ≥ subtrahend (a wrapped rwnd/cwnd of ~4 GiB disables the window test for every later admission)",
		MinInst: 2,
		Run: func(c *RuleCtx) {
			acc := map[*ssa.Function]bool{}
			for _, n := range []string{"Association.RWND", "Association.CWND", "Association.MTU"} {
				acc[c.Fn(n)] = true
			}
			same := func(w ssa.Value) VPat {
				w = unconv(w)
				if call, ok := w.(*ssa.Call); ok {
					if sc := call.Call.StaticCallee(); sc != nil && acc[sc] {
						return IsCallOf(sc)
					}
				}
				return func(v ssa.Value) bool { return sameExpr(v, w, 0) }
			}
			var subs func(v ssa.Value, d int, out *[]*ssa.BinOp)
			subs = func(v ssa.Value, d int, out *[]*ssa.BinOp) {
				if d > 6 || v == nil {
					return
				}
				switch x := unconv(v).(type) {
				case *ssa.BinOp:
					if x.Op == token.SUB && isUnsigned(x.Type()) {
						*out = append(*out, x)
					}
					subs(x.X, d+1, out)
					subs(x.Y, d+1, out)
				case *ssa.Phi:
					for _, e := range x.Edges {
						subs(e, d+1, out)
					}
				case *ssa.Call:
					if sc := x.Call.StaticCallee(); sc != nil && (sc.Name() == "min32" || sc.Name() == "max32") {
						for _, a := range x.Call.Args {
							subs(a, d+1, out)
						}
					}
				}
			}
			ks := keyer{}
			check := func(fn *ssa.Function, what string, at ssa.Instruction, v ssa.Value) {
				var found []*ssa.BinOp
				subs(v, 0, &found)
				for _, b := range found {
					ok := DominatedByExt(b, CmpCond(token.LEQ, same(b.Y), same(b.X))) || DominatedByExt(b, CmpCond(token.LSS, same(b.Y), same(b.X)))
					if !ok {
						// x - min(…, x): the subtrahend is bounded by the minuend by construction
						if call, isCall := unconv(b.Y).(*ssa.Call); isCall {
							name := ""
							if sc := call.Call.StaticCallee(); sc != nil {
								name = sc.Name()
							} else if bi, isB := call.Call.Value.(*ssa.Builtin); isB {
								name = bi.Name()
							}
							if name == "min" || name == "min32" {
								for _, a := range call.Call.Args {
									if sameExpr(a, b.X, 0) || unconv(a) == unconv(b.X) {
										ok = true
									}
								}
							}
						}
					}
					c.Check(ok, ks.key("nowrap:"+what+"@"+c.P.FuncName(fn)), c.Pos(at), "minuend ≥ subtrahend holds on every path to the subtraction",
						fmt.Sprintf("unsigned subtraction %s - %s feeding %s is not guarded against wrapping (%s)", shortValue(c.P, b.X), shortValue(c.P, b.Y), what, c.describeConds(b)))
				}
				if len(found) == 0 {
					c.Ok(ks.key("nosub:"+what+"@"+c.P.FuncName(fn)), c.Pos(at), "value written without unsigned subtraction")
				}
			}
			setR, setC := c.Fn("Association.setRWND"), c.Fn("Association.setCWND")
			ss := c.field("Association", "ssthresh")
			for _, fn := range c.P.Funcs {
				for _, cs := range callsIn(fn, setR) {
					check(fn, "rwnd", cs, callArg(cs, 1))
				}
				for _, cs := range callsIn(fn, setC) {
					check(fn, "cwnd", cs, callArg(cs, 1))
				}
				for _, a := range c.storesIn(fn, ss) {
					check(fn, "ssthresh", a.Instr, a.Val)
				}
			}
			// the admission tests themselves: an unsigned difference compared against what is
			// in flight wraps to ~4 GiB when the window is smaller than one chunk
			seenB := map[*ssa.BinOp]bool{}
			for _, root := range []string{"Association.getDataPacketsToRetransmit", "Association.popPendingDataChunksToSend", "Association.gatherOutboundFastRetransmissionPackets"} {
				for _, fn := range c.P.Region(c.Fn(root)) {
					forEachInstr(fn, func(in ssa.Instruction) {
						cmp, ok := in.(*ssa.BinOp)
						if !ok {
							return
						}
						switch cmp.Op {
						case token.LSS, token.LEQ, token.GTR, token.GEQ:
						default:
							return
						}
						var found []*ssa.BinOp
						subs(cmp.X, 0, &found)
						subs(cmp.Y, 0, &found)
						for _, b := range found {
							if seenB[b] {
								continue
							}
							seenB[b] = true
							okG := DominatedByExt(b, CmpCond(token.LEQ, same(b.Y), same(b.X))) || DominatedByExt(b, CmpCond(token.LSS, same(b.Y), same(b.X)))
							c.Check(okG, ks.key("nowrap:admission@"+c.P.FuncName(fn)), c.Pos(b), "minuend ≥ subtrahend holds on every path to the subtraction",
								fmt.Sprintf("unsigned subtraction %s - %s decides an admission test and is not guarded against wrapping: with a window smaller than one chunk the difference is ~4 GiB and every marked chunk is sent in one burst", shortValue(c.P, b.X), shortValue(c.P, b.Y)))
						}
					})
				}
			}
		}})
}
