package sctp

import (
	"context"
	"testing"
	"time"

	"github.com/pion/transport/v4/test"
	"github.com/stretchr/testify/assert"
	"github.com/stretchr/testify/require"
)

// A caller blocked in Shutdown() while the peer ABORTs, the association is
// closed, or the transport fails gets a nil error, i.e. "graceful shutdown
// completed", although the association was torn down abnormally.
func hunt3Run(t *testing.T, inject func(br *test.Bridge, a0, a1 *Association), wantInErr string) {
	t.Helper()
	br := test.NewBridge()
	a0, a1, err := createNewAssociationPair(br, ackModeNoDelay, 0)
	require.NoError(t, err)
	defer closeAssociationPair(br, a0, a1)

	_, _, err = establishSessionPair(br, a0, a1, 1)
	require.NoError(t, err)

	// a0 -> a1 is black-holed: a0's SHUTDOWN never arrives, Shutdown() stays blocked.
	br.Filter(0, func([]byte) bool { return false })

	shutdownErr := make(chan error, 1)
	go func() {
		ctx, cancel := context.WithTimeout(context.Background(), 8*time.Second)
		defer cancel()
		shutdownErr <- a0.Shutdown(ctx)
	}()

	for i := 0; i < 20; i++ {
		time.Sleep(10 * time.Millisecond)
		br.Tick()
	}
	require.Equal(t, shutdownSent, a0.getState())
	select {
	case err := <-shutdownErr:
		require.Failf(t, "Shutdown must still be blocked", "returned %v", err)
	default:
	}

	inject(br, a0, a1)

	var got error
	returned := false
	for i := 0; i < 300 && !returned; i++ {
		time.Sleep(10 * time.Millisecond)
		br.Tick()
		select {
		case got = <-shutdownErr:
			returned = true
		default:
		}
	}
	require.True(t, returned, "Shutdown must be unblocked")
	require.Equal(t, closed, a0.getState())
	if assert.Error(t, got, "Shutdown() reported success although the association was torn down abnormally") {
		assert.Contains(t, got.Error(), wantInErr)
	}
}

func TestHunt3ShutdownReturnsNilOnAbort(t *testing.T) {
	t.Run("peer ABORT", func(t *testing.T) {
		hunt3Run(t, func(_ *test.Bridge, _, a1 *Association) { go a1.Abort("boom") }, "boom")
	})
	t.Run("local Close", func(t *testing.T) {
		hunt3Run(t, func(_ *test.Bridge, a0, _ *Association) { go func() { _ = a0.Close() }() }, "")
	})
	t.Run("transport failure", func(t *testing.T) {
		hunt3Run(t, func(br *test.Bridge, _, _ *Association) { _ = br.GetConn0().Close() }, "")
	})
}
