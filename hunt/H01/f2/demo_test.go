package sctp

// Finding 2 (C03): DATA / I-DATA chunks without user data (Length == 16 / 20) are
// accepted, acknowledged, queued and even delivered instead of being dropped or
// answered with ABORT; because they consume no receive-window credit the
// reassembly queue -- and the time needed to process each further packet --
// grows without bound.
//
// Copy to the package root as zz_f2_test.go and run:
//   go test -count=1 -run 'TestF2' -v .

import (
	"net"
	"testing"
	"time"

	"github.com/pion/logging"
	"github.com/stretchr/testify/require"
)

type f2NopConn struct{ closed chan struct{} }

func (c *f2NopConn) Read(_ []byte) (int, error)  { <-c.closed; return 0, net.ErrClosed }
func (c *f2NopConn) Write(p []byte) (int, error) { return len(p), nil }
func (c *f2NopConn) Close() error {
	select {
	case <-c.closed:
	default:
		close(c.closed)
	}

	return nil
}
func (c *f2NopConn) LocalAddr() net.Addr                { return &net.IPAddr{} }
func (c *f2NopConn) RemoteAddr() net.Addr               { return &net.IPAddr{} }
func (c *f2NopConn) SetDeadline(_ time.Time) error      { return nil }
func (c *f2NopConn) SetReadDeadline(_ time.Time) error  { return nil }
func (c *f2NopConn) SetWriteDeadline(_ time.Time) error { return nil }

const f2PeerInitTSN = uint32(1000)

func f2Assoc(t *testing.T, interleaving bool) *Association {
	t.Helper()
	lf := logging.NewDefaultLoggerFactory()
	lf.DefaultLogLevel = logging.LogLevelDisabled
	a, err := createServerAssociation(Config{
		NetConn:       &f2NopConn{closed: make(chan struct{})},
		LoggerFactory: lf,
	}, WithEnableInterleaving(interleaving))
	require.NoError(t, err)
	a.lock.Lock()
	a.payloadQueue.init(f2PeerInitTSN - 1)
	a.peerVerificationTag = 0x1234
	a.sourcePort, a.destinationPort = 5000, 5000
	a.peerInterleaving = interleaving
	require.NoError(t, a.updateInterleavingState())
	a.setState(established)
	a.lock.Unlock()
	t.Cleanup(func() { _ = a.close() })

	return a
}

func f2Packet(t *testing.T, a *Association, cs ...chunk) []byte {
	t.Helper()
	p := &packet{sourcePort: 5000, destinationPort: 5000, verificationTag: a.myVerificationTag, chunks: cs}
	raw, err := p.marshal(true)
	require.NoError(t, err)
	require.LessOrEqual(t, len(raw), int(receiveMTU))

	return raw
}

// A single complete (B+E) message without user data.
func TestF2EmptyDataAcceptedAndDelivered(t *testing.T) {
	for _, iData := range []bool{false, true} {
		t.Run(map[bool]string{false: "DATA", true: "I-DATA"}[iData], func(t *testing.T) { f2Single(t, iData) })
	}
}

func f2Single(t *testing.T, iData bool) {
	t.Helper()
	{
		a := f2Assoc(t, iData)
		raw := f2Packet(t, a, &chunkPayloadData{
			tsn: f2PeerInitTSN, streamIdentifier: 1, beginningFragment: true, endingFragment: true,
			payloadType: PayloadTypeWebRTCBinary, userData: []byte{}, iData: iData,
		})
		if iData {
			require.Equal(t, 12+20, len(raw), "I-DATA chunk with Length=20")
		} else {
			require.Equal(t, 12+16, len(raw), "DATA chunk with Length=16")
		}
		require.NoError(t, a.handleInbound(raw))

		a.lock.Lock()
		aborting := a.willSendAbort
		cum := a.peerLastTSN()
		s := a.streams[1]
		a.lock.Unlock()
		if aborting {
			return // answered with ABORT: what RFC 9260 sec 6.2 demands
		}
		// not aborted: then it must have been dropped
		require.Equal(t, f2PeerInitTSN-1, cum, "iData=%v: a DATA chunk without user data was accepted", iData)
		if s != nil {
			require.False(t, s.reassemblyQueue.isReadable(), "iData=%v: an empty message is delivered", iData)
		}
	}
}

// Fragments without user data are kept forever, never count against the receive
// window, and make every later packet slower.
func TestF2EmptyDataUnboundedQueue(t *testing.T) {
	a := f2Assoc(t, false)

	const n = 20000
	tsn := f2PeerInitTSN
	var first, last time.Duration
	for sent := 0; sent < n; {
		var cs []chunk
		for i := 0; i < 400; i++ {
			// middle fragment (B=0,E=0) of an unordered message that never completes
			cs = append(cs, &chunkPayloadData{
				tsn: tsn, streamIdentifier: 1, unordered: true,
				payloadType: PayloadTypeWebRTCBinary, userData: []byte{},
			})
			tsn++
			sent++
		}
		raw := f2Packet(t, a, cs...)
		start := time.Now()
		require.NoError(t, a.handleInbound(raw))
		last = time.Since(start)
		if first == 0 {
			first = last
		}
	}

	a.lock.Lock()
	aborting := a.willSendAbort
	a.lock.Unlock()
	if aborting {
		return
	}

	outs, _ := a.gatherOutbound()
	var sack *chunkSelectiveAck
	for _, o := range outs {
		p := &packet{}
		require.NoError(t, p.unmarshal(true, o))
		for _, c := range p.chunks {
			if s, ok := c.(*chunkSelectiveAck); ok {
				sack = s
			}
		}
	}
	require.NotNil(t, sack)

	a.lock.Lock()
	defer a.lock.Unlock()
	retained := 0
	if s := a.streams[1]; s != nil {
		retained = len(s.reassemblyQueue.unorderedChunks)
	}
	t.Logf("processing time of the 1st packet: %v, of the 50th packet: %v", first, last)
	t.Logf("SACK cumTSN=%d a_rwnd=%d (buffer %d); chunks retained in the reassembly queue: %d",
		sack.cumulativeTSNAck, sack.advertisedReceiverWindowCredit, a.maxReceiveBufferSize, retained)
	require.Zero(t, retained,
		"%d DATA chunks without user data are retained while the advertised window is still %d of %d",
		retained, sack.advertisedReceiverWindowCredit, a.maxReceiveBufferSize)
}
