package sctp

import (
	"testing"

	"github.com/stretchr/testify/require"
)

// A client that is in COOKIE-ECHOED (it already took the peer's initial TSN from
// the INIT ACK) receives an unexpected INIT (stale INIT of an earlier peer
// incarnation, or any INIT with verification tag 0) that states a different
// initial TSN. RFC 9260 5.2.1 says such an INIT is answered without touching the
// association; handleInit instead re-initialises the receive TSN tracker. After
// the handshake completes the first SACK acknowledges TSNs that were never
// received and the peer's first messages are treated as duplicates.
func TestZZHuntInitInCookieEchoedMovesCumulativeTSN(t *testing.T) {
	a := createTestAssociation(t, Config{})

	const (
		peerTag        = uint32(0xB2B2B2B2)
		peerInitialTSN = uint32(0xFFFFFFFE) // first DATA of the peer: 0xFFFFFFFE, next ones wrap
		staleTag       = uint32(0xB1B1B1B1)
		staleTSN       = uint32(3) // = peerInitialTSN+5 (mod 2^32): INIT of an earlier incarnation
	)

	send := func(vtag uint32, cs ...chunk) {
		t.Helper()
		p := &packet{sourcePort: 5000, destinationPort: 5000, verificationTag: vtag, chunks: cs}
		raw, err := p.marshal(true)
		require.NoError(t, err)
		require.NoError(t, a.handleInbound(raw))
	}

	// The client has sent its INIT.
	a.lock.Lock()
	a.sourcePort, a.destinationPort = 5000, 5000
	a.setState(cookieWait)
	a.lock.Unlock()

	// 1. genuine INIT ACK.
	initAck := &chunkInitAck{}
	initAck.initiateTag = peerTag
	initAck.initialTSN = peerInitialTSN
	initAck.numInboundStreams = 100
	initAck.numOutboundStreams = 100
	initAck.advertisedReceiverWindowCredit = 128 * 1024
	cookie, err := newRandomStateCookie()
	require.NoError(t, err)
	initAck.params = []param{cookie}
	setSupportedExtensions(&initAck.chunkInitCommon, false)
	send(a.myVerificationTag, initAck)
	require.Equal(t, cookieEchoed, a.getState())
	require.Equal(t, peerInitialTSN-1, a.peerLastTSN())

	// 2. unexpected INIT while in COOKIE-ECHOED.
	stale := &chunkInit{}
	stale.initiateTag = staleTag
	stale.initialTSN = staleTSN
	stale.numInboundStreams = 100
	stale.numOutboundStreams = 100
	stale.advertisedReceiverWindowCredit = 128 * 1024
	setSupportedExtensions(&stale.chunkInitCommon, false)
	send(0, stale)
	require.Equal(t, cookieEchoed, a.getState())

	// 3. COOKIE ACK of the genuine peer completes the handshake.
	go func() { <-a.handshakeCompletedCh }()
	send(a.myVerificationTag, &chunkCookieAck{})
	require.Equal(t, established, a.getState())

	// 4. the peer's first message.
	send(a.myVerificationTag, &chunkPayloadData{
		tsn: peerInitialTSN, streamIdentifier: 1, streamSequenceNumber: 0,
		beginningFragment: true, endingFragment: true,
		payloadType: PayloadTypeWebRTCBinary, userData: []byte("hello"),
	})

	a.lock.Lock()
	sack := a.createSelectiveAckChunk()
	_, haveStream := a.streams[1]
	a.lock.Unlock()

	t.Logf("SACK after the first DATA (tsn=%d): cumTSNAck=%d gaps=%v dups=%v, stream created=%v",
		peerInitialTSN, sack.cumulativeTSNAck, sack.gapAckBlocks, sack.duplicateTSN, haveStream)

	require.Equal(t, peerInitialTSN, sack.cumulativeTSNAck,
		"the cumulative TSN ack must cover exactly the one TSN received from the peer")
	require.True(t, haveStream, "the peer's first message must be accepted")
}
