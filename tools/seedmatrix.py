#!/usr/bin/env python3
"""Analyses every seeded defect (scratch copy of /repo + patch; nothing is executed) with all checks
and writes /verif/seeded/MATRIX.md + updates meta.json 'detected_by_now'."""
import json, os, subprocess, tempfile, shutil, glob, re, concurrent.futures
def run(seed):
    d=f'/verif/seeded/{seed}'
    s=tempfile.mkdtemp(prefix='seedmx.',dir='/tmp')
    try:
        subprocess.run(['rsync','-a','--exclude','.git','/repo/',s+'/'],check=True)
        p=subprocess.run(['patch','-p1','-s','-i',d+'/patch.diff'],cwd=s,capture_output=True,text=True)
        if p.returncode!=0: return seed,None,'patch does not apply: '+p.stdout[:200]
        out=subprocess.run(['/verif/bin/sctpverif','all','--repo',s,'--no-evidence'],capture_output=True,text=True).stdout
        rules=sorted(set(re.findall(r'^(?:VIOLATION|UNRESOLVED) +(C\d+\.R\d+)',out,flags=re.M)))
        first=''
        m=re.search(r'^(?:VIOLATION|UNRESOLVED) +(C\d+\.R\d+ .*)$',out,flags=re.M)
        if m: first=m.group(1)[:220]
        return seed,rules,first
    finally:
        shutil.rmtree(s,ignore_errors=True)
seeds=sorted(os.path.basename(x) for x in glob.glob('/verif/seeded/C*-s*'))
rows=[]
with concurrent.futures.ThreadPoolExecutor(8) as ex:
    for seed,rules,first in ex.map(run,seeds):
        mp=f'/verif/seeded/{seed}/meta.json'
        meta=json.load(open(mp)); meta['detected_by_now']=rules; json.dump(meta,open(mp,'w'),indent=1)
        rows.append((seed,meta['property'],rules,first,meta.get('detected_by_at_first_evaluation')))
with open('/verif/seeded/MATRIX.md','w') as f:
    f.write('# Seeded defects × checks\n\nEvery row is a change to pion/sctp written by an independent sub-agent (given only the property text), confirmed to compile, pass the existing suite, and fail its own demonstration test. The checks only *analyse* the patched tree.\n\n')
    f.write('| seed | property | caught at first evaluation | caught now | first report |\n|---|---|---|---|---|\n')
    for seed,prop,rules,first,fe in rows:
        f.write(f"| {seed} | {prop} | {', '.join(fe) if fe else '**missed**'} | {', '.join(rules) if rules else '**MISSED**'} | {first.replace('|','/')} |\n")
    n=sum(1 for r in rows if r[2]); f.write(f'\n{n} of {len(rows)} seeded defects are reported by at least one check.\n')
print(open('/verif/seeded/MATRIX.md').read()[-200:])
