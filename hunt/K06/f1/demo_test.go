package sctp

import (
	"sync"
	"testing"
	"time"

	"github.com/pion/transport/v4/test"
	"github.com/stretchr/testify/require"
)

// C06: "once a lifetime limit has expired at most one further transmission of
// the message occurs" / "Retransmission stops when the policy is exhausted".
//
// A three-fragment message on a timed stream (lifetime 70 ms). Everything sent
// before T3-rtx (RTO locked at 100 ms) is lost. T3-rtx marks all three fragments for retransmission
// (cwnd is one MTU, so only the first fragment goes out). That retransmission
// discovers that the lifetime has expired and gives the message up. The
// fragments B and C keep their stale `retransmit` flag, and
// getDataPacketsToRetransmit never looks at givenUp(): they are put on the wire
// again in later rounds, after the message was given up.
func TestHuntK06StaleRetransmitFlagAfterGiveUp(t *testing.T) {
	lim := test.TimeOut(time.Second * 10)
	defer lim.Stop()

	const si uint16 = 3
	br := test.NewBridge()

	a0, a1, err := createNewAssociationPair(br, ackModeNoDelay, 0)
	require.NoError(t, err)

	s0, s1, err := establishSessionPair(br, a0, a1, si)
	require.NoError(t, err)
	_ = s1

	a0.rtoMgr.setRTO(100.0, true)

	const lifetime = 70 * time.Millisecond
	s0.SetReliabilityParams(false, ReliabilityTypeTimed, uint32(lifetime/time.Millisecond))

	type tx struct {
		at  time.Duration
		tsn uint32
	}
	var (
		mu     sync.Mutex
		start  time.Time
		log    []tx
		perTSN = map[uint32]int{}
	)

	br.Filter(0, func(raw []byte) bool {
		p := &packet{}
		if err := p.unmarshal(true, raw); err != nil {
			return true
		}
		mu.Lock()
		defer mu.Unlock()
		pass := true
		for _, c := range p.chunks {
			d, ok := c.(*chunkPayloadData)
			if !ok || d.streamIdentifier != si {
				continue
			}
			if start.IsZero() {
				start = time.Now()
			}
			perTSN[d.tsn]++
			log = append(log, tx{at: time.Since(start), tsn: d.tsn})
			if time.Since(start) < 85*time.Millisecond {
				pass = false // everything sent before T3-rtx (100 ms) is lost
			}
		}

		return pass
	})

	msg := make([]byte, 3*int(a0.maxPayloadSize)) // exactly three fragments
	n, err := s0.WriteSCTP(msg, PayloadTypeWebRTCBinary)
	require.NoError(t, err)
	require.Equal(t, len(msg), n)

	// Run long enough for T3-rtx (100 ms), the SACK and FORWARD-TSN exchange.
	deadline := time.Now().Add(1500 * time.Millisecond)
	for time.Now().Before(deadline) {
		br.Tick()
		time.Sleep(time.Millisecond)
	}

	mu.Lock()
	defer mu.Unlock()

	require.Len(t, perTSN, 3, "the message must have three fragments")

	// Transmissions of the message made after its lifetime had expired
	// (measured from the first transmission of the first fragment).
	late := 0
	for _, e := range log {
		t.Logf("t=%v tsn=%d", e.at.Round(time.Millisecond), e.tsn)
		if e.at >= lifetime {
			late++
		}
	}

	require.LessOrEqual(t, late, 1,
		"lifetime %v expired, yet %d DATA chunks of the message were transmitted afterwards", lifetime, late)

	closeAssociationPair(br, a0, a1)
}
