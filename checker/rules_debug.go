package main

import (
	"fmt"
	"go/token"
	"os"

	"golang.org/x/tools/go/ssa"
)

func init() {
	register(&Rule{ID: "C00.R0", Props: []string{"C00"}, Title: "debug", MinInst: 0, Run: func(c *RuleCtx) {
		if os.Getenv("VERIF_DEBUG") == "" {
			c.Ok("debug", "", "off")
			return
		}
		le := c.P.Locks()
		for _, fn := range c.P.Funcs {
			forEachInstr(fn, func(in ssa.Instruction) {
				desc := ""
				switch x := in.(type) {
				case *ssa.Select:
					desc = fmt.Sprintf("select blocking=%v:", x.Blocking)
					for _, st := range x.States {
						desc += " " + chanName(st.Chan) + fmt.Sprintf("(%v)", st.Dir)
					}
				case *ssa.UnOp:
					if x.Op == token.ARROW {
						desc = "recv " + chanName(x.X)
					}
				case *ssa.Send:
					desc = "send " + chanName(x.Chan)
				case ssa.CallInstruction:
					if sc := x.Common().StaticCallee(); sc != nil && sc.Pkg != nil && sc.Pkg.Pkg.Path() == "sync" && sc.Name() == "Wait" {
						desc = "sync Wait " + sc.String()
					}
					if b, ok := x.Common().Value.(*ssa.Builtin); ok && b.Name() == "close" {
						desc = "close " + chanName(x.Common().Args[0])
					}
					if x.Common().IsInvoke() && (x.Common().Method.Name() == "Read" || x.Common().Method.Name() == "Write") {
						desc = "io " + x.Common().Method.Name()
					}
				}
				if desc == "" {
					return
				}
				held := ""
				for ctx, ls := range le.HeldAt(in) {
					held += fmt.Sprintf(" [%s->%s]", le.String(ctx), le.String(ls))
				}
				fmt.Printf("%-45s %-14s %s   %s\n", c.P.FuncName(fn), c.Pos(in), desc, held)
			})
		}
		c.Ok("debug", "", "dumped")
	}})
}

func chanName(v ssa.Value) string {
	if f, _ := loadedField(v); f != nil {
		return f.Name()
	}
	switch x := v.(type) {
	case *ssa.Call:
		if x.Call.IsInvoke() {
			return "." + x.Call.Method.Name() + "()"
		}
		if sc := x.Call.StaticCallee(); sc != nil {
			return sc.Name() + "()"
		}
	case *ssa.Parameter:
		return "param:" + x.Name()
	case *ssa.FreeVar:
		return "free:" + x.Name()
	case *ssa.Phi:
		return "φ"
	}
	return v.Name()
}
