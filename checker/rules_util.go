package main

import (
	"fmt"
	"go/token"
	"go/types"
	"sort"
	"strings"

	"golang.org/x/tools/go/ssa"
)

// keyer makes construct keys unique within one rule run without using lines.
type keyer map[string]int

func (k keyer) key(base string) string {
	k[base]++
	if k[base] == 1 {
		return base
	}
	return fmt.Sprintf("%s#%d", base, k[base])
}

func (c *RuleCtx) field(structName, field string) *types.Var {
	f := c.P.Field(structName, field)
	if f == nil {
		panic(unresolved{"field " + structName + "." + field})
	}
	return f
}

func (c *RuleCtx) fns(names ...string) []*ssa.Function {
	var out []*ssa.Function
	for _, n := range names {
		out = append(out, c.Fn(n))
	}
	return out
}

func fnSet(fs []*ssa.Function) map[*ssa.Function]bool {
	m := map[*ssa.Function]bool{}
	for _, f := range fs {
		m[f] = true
	}
	return m
}

// enclosingNamed returns the outermost named function of an anonymous one.
func enclosingNamed(fn *ssa.Function) *ssa.Function {
	for fn.Parent() != nil {
		fn = fn.Parent()
	}
	return fn
}

// inRegion: the site function is a gate (or nested in one) or is not reachable
// from the package roots once gates are removed from the call graph.
func (c *RuleCtx) inRegion(fn *ssa.Function, gates map[*ssa.Function]bool, reach map[*ssa.Function]*cgEdge) (bool, string) {
	if gates[fn] || gates[enclosingNamed(fn)] {
		return true, "inside gate " + c.P.FuncName(enclosingNamed(fn))
	}
	if _, ok := reach[fn]; !ok {
		return true, "reachable only through the gate(s)"
	}
	return false, "reachable without passing a gate: " + c.P.PathTo(reach, fn)
}

// RegionWriters: every writer of the field lies in the region gated by gates.
func (c *RuleCtx) RegionWriters(label string, f *types.Var, gateNames ...string) int {
	gates := fnSet(c.fns(gateNames...))
	reach := c.P.ReachableAvoiding(c.P.Roots(), gates)
	ks := keyer{}
	n := 0
	for _, a := range c.P.Writes(f) {
		n++
		ok, why := c.inRegion(a.Fn, gates, reach)
		c.Check(ok, ks.key(label+":write("+f.Name()+")@"+c.P.FuncName(a.Fn)), c.Pos(a.Instr),
			fmt.Sprintf("%s of %s is %s [gates: %s]", a.Kind, f.Name(), why, strings.Join(gateNames, ",")),
			fmt.Sprintf("%s of %s outside the region gated by {%s}: %s", a.Kind, f.Name(), strings.Join(gateNames, ","), why))
	}
	return n
}

// RegionCallers: every call site / reference of target lies in the gated region.
func (c *RuleCtx) RegionCallers(label string, target *ssa.Function, gateNames ...string) int {
	gates := fnSet(c.fns(gateNames...))
	reach := c.P.ReachableAvoiding(c.P.Roots(), gates)
	ks := keyer{}
	n := 0
	for _, e := range c.P.Callers(target) {
		n++
		ok, why := c.inRegion(e.From, gates, reach)
		c.Check(ok, ks.key(label+":call("+c.P.FuncName(target)+")@"+c.P.FuncName(e.From)), c.Pos(e.Site),
			fmt.Sprintf("%s use of %s is %s", e.Kind, c.P.FuncName(target), why),
			fmt.Sprintf("%s use of %s outside the region gated by {%s}: %s", e.Kind, c.P.FuncName(target), strings.Join(gateNames, ","), why))
	}
	return n
}

// ExactCallers: callers of target are exactly within the named functions.
func (c *RuleCtx) CallersWithin(label string, target *ssa.Function, allowed ...string) int {
	allow := fnSet(c.fns(allowed...))
	ks := keyer{}
	n := 0
	for _, e := range c.P.Callers(target) {
		n++
		c.Check(c.P.OwnedBy(e.From, allow), ks.key(label+":call("+c.P.FuncName(target)+")@"+c.P.FuncName(e.From)), c.Pos(e.Site),
			fmt.Sprintf("%s is used only from the allowed set {%s}", c.P.FuncName(target), strings.Join(allowed, ",")),
			fmt.Sprintf("%s used from %s, not in {%s}", c.P.FuncName(target), c.P.FuncName(e.From), strings.Join(allowed, ",")))
	}
	return n
}

// WritersWithin: writers of field are within the named functions (incl. their closures).
func (c *RuleCtx) WritersWithin(label string, f *types.Var, allowed ...string) int {
	allow := fnSet(c.fns(allowed...))
	ks := keyer{}
	n := 0
	for _, a := range c.P.Writes(f) {
		n++
		enc := enclosingNamed(a.Fn)
		c.Check(c.P.OwnedBy(a.Fn, allow), ks.key(label+":write("+f.Name()+")@"+c.P.FuncName(a.Fn)), c.Pos(a.Instr),
			fmt.Sprintf("%s of %s inside allowed writer %s", a.Kind, f.Name(), c.P.FuncName(enc)),
			fmt.Sprintf("%s of %s in %s, not in {%s}", a.Kind, f.Name(), c.P.FuncName(a.Fn), strings.Join(allowed, ",")))
	}
	return n
}

// ReadersWithin: readers of field are within the named functions.
func (c *RuleCtx) ReadersWithin(label string, f *types.Var, allowed ...string) int {
	allow := fnSet(c.fns(allowed...))
	ks := keyer{}
	n := 0
	for _, a := range c.P.Reads(f) {
		n++
		enc := enclosingNamed(a.Fn)
		c.Check(c.P.OwnedBy(a.Fn, allow), ks.key(label+":read("+f.Name()+")@"+c.P.FuncName(a.Fn)), c.Pos(a.Instr),
			fmt.Sprintf("read of %s inside allowed reader %s", f.Name(), c.P.FuncName(enc)),
			fmt.Sprintf("read of %s in %s, not in {%s}", f.Name(), c.P.FuncName(a.Fn), strings.Join(allowed, ",")))
	}
	return n
}

// Dom: instruction must be dominated by a branch outcome matching pat.
func (c *RuleCtx) Dom(key string, in ssa.Instruction, pat CondPat, what string) bool {
	ok := DominatedByExt(in, pat)
	return c.Check(ok, key, c.Pos(in), "dominated by "+what, "NOT dominated by "+what+" (holds here: "+c.describeConds(in)+")")
}

// describeConds renders the dominating conditions of an instruction (for reports).
func (c *RuleCtx) describeConds(in ssa.Instruction) string {
	var parts []string
	for _, f := range DomFacts(in.Block()) {
		parts = append(parts, fmt.Sprintf("%s=%v", shortValue(c.P, f.Cond), f.Taken))
	}
	return strings.Join(parts, " ∧ ")
}

func shortValue(p *Prog, v ssa.Value) string {
	switch x := v.(type) {
	case *ssa.Call:
		if sc := x.Call.StaticCallee(); sc != nil {
			return p.FuncName(sc) + "(…)"
		}
		if x.Call.IsInvoke() {
			return "." + x.Call.Method.Name() + "(…)"
		}
		return "call"
	case *ssa.BinOp:
		return shortValue(p, x.X) + x.Op.String() + shortValue(p, x.Y)
	case *ssa.UnOp:
		if x.Op == token.MUL {
			if fa, ok := x.X.(*ssa.FieldAddr); ok {
				if f := fieldOf(fa.X.Type(), fa.Field); f != nil {
					return "." + f.Name()
				}
			}
			return "*" + shortValue(p, x.X)
		}
		return x.Op.String() + shortValue(p, x.X)
	case *ssa.Const:
		if x.Value == nil {
			return "nil"
		}
		return x.Value.String()
	case *ssa.Parameter:
		return x.Name()
	case *ssa.Convert:
		return shortValue(p, x.X)
	case *ssa.Field:
		if f := fieldOf(x.X.Type(), x.Field); f != nil {
			return "." + f.Name()
		}
	case *ssa.Extract:
		return shortValue(p, x.Tuple) + fmt.Sprintf("#%d", x.Index)
	case *ssa.Phi:
		return "φ"
	}
	return v.Name()
}

// fieldOfAddr: if v is &x.f returns f.
func fieldOfAddr(v ssa.Value) *types.Var {
	fa, ok := v.(*ssa.FieldAddr)
	if !ok {
		return nil
	}
	return originVar(fieldOf(fa.X.Type(), fa.Field))
}

// loadedField: if v is a load of x.f returns f and the base x.
func loadedField(v ssa.Value) (*types.Var, ssa.Value) {
	v = unconv(v)
	switch x := v.(type) {
	case *ssa.UnOp:
		if x.Op == token.MUL {
			if fa, ok := x.X.(*ssa.FieldAddr); ok {
				return originVar(fieldOf(fa.X.Type(), fa.Field)), fa.X
			}
		}
	case *ssa.Field:
		return originVar(fieldOf(x.X.Type(), x.Field)), x.X
	}
	return nil, nil
}

// storesIn lists Stores to field f in fn.
func (c *RuleCtx) storesIn(fn *ssa.Function, f *types.Var) []Access {
	var out []Access
	for _, a := range c.P.Writes(f) {
		if a.Fn == fn {
			out = append(out, a)
		}
	}
	sort.Slice(out, func(i, j int) bool { return out[i].Instr.Pos() < out[j].Instr.Pos() })
	return out
}

// methodCallsOn lists calls in fn of method named m on a value loaded from field f.
func callsOnField(fn *ssa.Function, f *types.Var, method string) []ssa.CallInstruction {
	var out []ssa.CallInstruction
	forEachInstr(fn, func(in ssa.Instruction) {
		ci, ok := in.(ssa.CallInstruction)
		if !ok {
			return
		}
		cc := ci.Common()
		sc := cc.StaticCallee()
		if sc == nil || sc.Name() != method || len(cc.Args) == 0 {
			return
		}
		if lf, _ := loadedField(cc.Args[0]); lf == f {
			out = append(out, ci)
		} else if fieldOfAddr(cc.Args[0]) == f {
			out = append(out, ci)
		}
	})
	return out
}

// callArg returns the i-th argument of a call instruction.
func callArg(ci ssa.CallInstruction, i int) ssa.Value {
	a := ci.Common().Args
	if i < len(a) {
		return a[i]
	}
	return nil
}

// sameChunk: do v and w denote the same SSA value modulo conversions.
func sameVal(v, w ssa.Value) bool { return unconv(v) == unconv(w) }

// isFieldLoadOn: v loads field f from base b.
func isFieldLoadOn(f *types.Var, base ssa.Value) VPat {
	return func(v ssa.Value) bool {
		lf, b := loadedField(v)
		return lf == f && (base == nil || b == base || resolveParam(b) == resolveParam(base))
	}
}

// chanName renders the channel operand of a blocking operation.
func chanName(v ssa.Value) string {
	if f, _ := loadedField(v); f != nil {
		return f.Name()
	}
	switch x := v.(type) {
	case *ssa.Call:
		if x.Call.IsInvoke() {
			return "." + x.Call.Method.Name() + "()"
		}
		if sc := x.Call.StaticCallee(); sc != nil {
			return sc.Name() + "()"
		}
	case *ssa.Parameter:
		// a channel handed in at the single call/go site of a function is named after what is
		// passed there (so renaming the parameter does not change its identity)
		if fn := x.Parent(); fn != nil && curProg != nil {
			sites := curProg.CallSitesOf(fn)
			if len(sites) == 1 {
				idx := -1
				for i, p := range fn.Params {
					if p == x {
						idx = i
					}
				}
				args := sites[0].Instr.Common().Args
				if idx >= 0 && idx < len(args) {
					if f, _ := loadedField(args[idx]); f != nil {
						return "param:" + f.Name()
					}
				}
			}
		}
		return "param:" + x.Name()
	case *ssa.FreeVar:
		return "free:" + x.Name()
	case *ssa.Phi:
		return "φ"
	}
	return v.Name()
}

// deliverFn: the function that hands an accepted DATA chunk to its stream —
// the host of the (unique) static call to Stream.handleData. Today that is the
// helper pushPayloadDataToStream; if it is inlined, its caller takes the role.
func (c *RuleCtx) deliverFn() *ssa.Function {
	sh := c.Fn("Stream.handleData")
	sites := c.P.CallSitesOf(sh)
	if len(sites) != 1 {
		panic(unresolved{"the unique call site of Stream.handleData"})
	}
	return enclosingNamed(sites[0].Fn)
}

// resolveParam: a parameter of a private helper with a single call site stands
// for the argument passed there (followed up the call chain).
func resolveParam(v ssa.Value) ssa.Value {
	for d := 0; d < 4 && v != nil; d++ {
		p, ok := v.(*ssa.Parameter)
		if !ok {
			return v
		}
		a := through(p)
		if a == nil {
			return v
		}
		v = unconv(a)
	}
	return v
}
