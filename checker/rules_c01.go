package main

import (
	"fmt"
	"go/token"

	"golang.org/x/tools/go/ssa"
)

func init() {
	register(&Rule{ID: "C01.R1", Props: []string{"C01"}, Engine: "E2",
		Title:   "single TSN source: chunk TSNs are assigned only when a chunk moves pending->inflight, from generateNextTSN, in queue order",
		MinInst: 8,
		Run: func(c *RuleCtx) {
			move := "Association.movePendingDataChunkToInflightQueue"
			c.RegionWriters("tsn", c.field("chunkPayloadData", "tsn"), move, "chunkPayloadData.unmarshal")
			c.RegionCallers("gen", c.Fn("Association.generateNextTSN"), move)
			c.RegionCallers("push", c.Fn("payloadQueue.pushNoCheck"), move)
			c.WritersWithin("next", c.field("Association", "myNextTSN"), "Association.generateNextTSN", "createAssociationFromConfigWithTsn")
			// the value stored to tsn in the mover is the generator's result
			mv := c.Fn(move)
			gen := c.Fn("Association.generateNextTSN")
			st := c.storesIn(mv, c.field("chunkPayloadData", "tsn"))
			if len(st) == 0 {
				c.Fail("tsn-source", "", "no store to chunk.tsn in "+move)
			}
			for _, a := range st {
				_, ok := isCallTo(unconv(a.Val), gen)
				c.Check(ok, "tsn-source", c.Pos(a.Instr), "chunk.tsn <- generateNextTSN()", "chunk.tsn stored from something other than generateNextTSN()")
				// and the chunk pushed to inflight is the same chunk, after the store
				for _, pc := range callsIn(mv, c.Fn("payloadQueue.pushNoCheck")) {
					base := a.FA.(*ssa.FieldAddr).X
					c.Check(sameVal(callArg(pc, 1), base) && InstrDominates(a.Instr, pc), "tsn-before-push", c.Pos(pc),
						"inflightQueue.pushNoCheck(chunk) follows the TSN assignment of the same chunk",
						"inflight push does not follow the TSN assignment of the same chunk")
				}
			}
			// generateNextTSN returns the pre-increment value and increments by 1
			nxt := c.field("Association", "myNextTSN")
			for _, a := range c.storesIn(gen, nxt) {
				ok := BinV(token.ADD, IsLoadOf(nxt), IsConstInt(1))(a.Val)
				c.Check(ok, "gen-increment", c.Pos(a.Instr), "myNextTSN <- myNextTSN + 1", "myNextTSN not advanced by exactly 1")
			}
			forEachInstr(gen, func(in ssa.Instruction) {
				if r, ok := in.(*ssa.Return); ok && len(r.Results) == 1 {
					c.Check(IsLoadOf(nxt)(r.Results[0]), "gen-returns-old", c.Pos(in), "returns the pre-increment myNextTSN", "does not return the loaded myNextTSN")
				}
			})
		}})

	register(&Rule{ID: "C01.R2", Props: []string{"C01", "C20"}, Engine: "E4",
		Title:   "all fragments of a message are enqueued in one critical section of Association.lock",
		MinInst: 2,
		Run: func(c *RuleCtx) {
			fn := c.Fn("Association.sendPayloadData")
			le := c.P.Locks()
			pushes := callsIn(fn, c.Fn("pendingQueue.push"))
			if len(pushes) == 0 {
				c.Fail("push-site", "", "no pendingQueue.push in sendPayloadData")
			}
			for _, pc := range pushes {
				held := le.HeldAt(pc)
				ok := len(held) > 0
				for _, ls := range held {
					if !le.Holds(ls, "Association.lock", true) {
						ok = false
					}
				}
				c.Check(ok, "push-under-lock", c.Pos(pc), "Association.lock(W) held at pendingQueue.push in every context",
					"pendingQueue.push without Association.lock(W)")
				loop := loopBlocks(pc.Block())
				c.Check(len(loop) > 0, "push-in-loop", c.Pos(pc), "push is in the per-fragment loop", "push no longer in a loop over the fragments")
				bad := ""
				for b := range loop {
					for _, in := range b.Instrs {
						if ci, ok := in.(ssa.CallInstruction); ok {
							if cl, op, ok := le.mutexOp(ci.Common()); ok && cl == "Association.lock" && (op == "Unlock" || op == "RUnlock") {
								bad = c.Pos(in)
							}
						}
					}
				}
				c.Check(bad == "", "no-unlock-in-loop", c.Pos(pc), "no release of Association.lock between two fragment pushes",
					"Association.lock released inside the fragment loop at "+bad)
			}
		}})

	register(&Rule{ID: "C01.R3", Props: []string{"C01", "C05", "C11"}, Engine: "E2+E3",
		Title:   "duplicate suppression dominates delivery: stream.handleData only via pushPayloadDataToStream (after payloadQueue.push), only via acceptPayloadData, only under canPush(chunk.tsn)",
		MinInst: 5,
		Run: func(c *RuleCtx) {
			pushTo := c.deliverFn()
			accept := c.Fn("Association.acceptPayloadData")
			hd := c.Fn("Association.handleData")
			c.RegionCallers("deliver", c.Fn("Stream.handleData"), c.P.FuncName(pushTo))
			if pushTo != accept {
				c.RegionCallers("deliver", pushTo, "Association.acceptPayloadData")
			}
			c.CallersWithin("accept", accept, "Association.handleData")
			rq := c.Fn("receivePayloadQueue.push")
			tsn := c.field("chunkPayloadData", "tsn")
			for _, dc := range callsIn(pushTo, c.Fn("Stream.handleData")) {
				ok := false
				for _, qc := range callsIn(pushTo, rq) {
					if InstrDominates(qc, dc) && isFieldLoadOn(tsn, unconv(callArg(dc, 1)))(callArg(qc, 1)) {
						ok = true
					}
				}
				c.Check(ok, "record-before-deliver", c.Pos(dc), "payloadQueue.push(chunk.tsn) dominates stream.handleData(chunk)",
					"stream.handleData not preceded by payloadQueue.push of the same chunk's TSN")
			}
			canPush := c.Fn("receivePayloadQueue.canPush")
			for _, ac := range callsIn(hd, accept) {
				chunk := unconv(callArg(ac, 1))
				c.Dom("accept-under-canPush", ac, CallCond(canPush, true, nil, isFieldLoadOn(tsn, chunk)), "payloadQueue.canPush(chunk.tsn)==true")
			}
			// canPush refuses what is already recorded or at/below the cumulative point
			has := c.Fn("receivePayloadQueue.hasChunk")
			cum := c.field("receivePayloadQueue", "cumulativeTSN")
			lte := c.Fn("sna32LTE")
			forEachInstr(canPush, func(in ssa.Instruction) {
				r, ok := in.(*ssa.Return)
				if !ok || len(r.Results) != 1 || !IsConstBool(true)(r.Results[0]) {
					return
				}
				c.Check(DominatedByExt(r, CallCond(has, false, nil, IsParam(canPush, 1))), "canPush-true-needs-!hasChunk", c.Pos(r),
					"canPush returns true only when hasChunk(tsn) is false", "canPush may return true for a TSN already recorded")
				c.Check(DominatedByExt(r, CallCond(lte, false, IsParam(canPush, 1), IsLoadOf(cum))), "canPush-true-needs-above-cum", c.Pos(r),
					"canPush returns true only when tsn is above the cumulative TSN", "canPush may return true for a TSN at/below the cumulative point")
			})
		}})

	register(&Rule{ID: "C01.R4", Props: []string{"C01", "C03"}, Engine: "E2",
		Title:   "in-flight data is released only by acknowledgement processing",
		MinInst: 5,
		Run: func(c *RuleCtx) {
			c.RegionCallers("release", c.Fn("payloadQueue.pop"), "Association.processSelectiveAck")
			c.RegionCallers("release", c.Fn("payloadQueue.markAsAcked"), "Association.processSelectiveAck")
			c.WritersWithin("acked", c.field("chunkPayloadData", "acked"), "payloadQueue.markAsAcked")
			c.WritersWithin("userData", c.field("chunkPayloadData", "userData"),
				"Stream.packetize", "chunkPayloadData.unmarshal", "payloadQueue.markAsAcked", "Association.sendResetRequest")
			c.CallersWithin("queue-pop", c.Fn("queue.PopFront"), "payloadQueue.pop")
		}})

	register(&Rule{ID: "C01.R5", Props: []string{"C01", "C06"}, Engine: "E7-alias",
		Title:   "no aliasing of the transport read buffer or of the caller's write buffer into stored chunks",
		MinInst: 4,
		Run: func(c *RuleCtx) {
			rl := c.Fn("Association.readLoop")
			var readCall ssa.Instruction
			forEachInstr(rl, func(in ssa.Instruction) {
				if ci, ok := in.(ssa.CallInstruction); ok && ci.Common().IsInvoke() && ci.Common().Method.Name() == "Read" {
					readCall = in
				}
			})
			if readCall == nil {
				c.Fail("readloop-read", "", "netConn.Read call not found in readLoop")
				return
			}
			readBuf := unconv(readCall.(ssa.CallInstruction).Common().Args[0])
			for _, hc := range callsIn(rl, c.Fn("Association.handleInbound")) {
				arg := unconv(callArg(hc, 1))
				ms, isMake := arg.(*ssa.MakeSlice)
				ok := isMake && InstrDominates(readCall, ms) && addrRoot(arg) != addrRoot(readBuf)
				c.Check(ok, "inbound-is-fresh", c.Pos(hc), "handleInbound receives a slice allocated after each Read (not the reused read buffer)",
					"handleInbound receives a slice that is not freshly allocated per packet")
				// and it is filled by copy from the read buffer
				copied := false
				forEachInstr(rl, func(in ssa.Instruction) {
					if call, ok := in.(*ssa.Call); ok {
						if b, ok := call.Call.Value.(*ssa.Builtin); ok && b.Name() == "copy" && len(call.Call.Args) == 2 {
							if unconv(call.Call.Args[0]) == arg && addrRoot(call.Call.Args[1]) == addrRoot(readBuf) && InstrDominates(call, hc) {
								copied = true
							}
						}
					}
				})
				c.Check(copied, "inbound-copied", c.Pos(hc), "the fresh slice is filled by copy(inbound, buffer[:n]) before handleInbound", "no copy from the read buffer into the per-packet slice")
			}
			pk := c.Fn("Stream.packetize")
			ud := c.field("chunkPayloadData", "userData")
			for _, a := range c.storesIn(pk, ud) {
				_, isMake := unconv(a.Val).(*ssa.MakeSlice)
				c.Check(isMake, "userData-is-copy", c.Pos(a.Instr), "chunk.userData is a freshly made slice", "chunk.userData aliases something other than a fresh allocation")
			}
			// the caller's buffer never escapes: only len(raw) and copy(_, raw[a:b])
			raw := pk.Params[1]
			ks := keyer{}
			for _, ref := range *raw.Referrers() {
				ok := false
				switch x := ref.(type) {
				case *ssa.Call:
					if b, isB := x.Call.Value.(*ssa.Builtin); isB && b.Name() == "len" {
						ok = true
					}
				case *ssa.Slice:
					ok = true
					for _, r2 := range *x.Referrers() {
						call, isCall := r2.(*ssa.Call)
						if !isCall {
							if _, dbg := r2.(*ssa.DebugRef); dbg {
								continue
							}
							ok = false
							continue
						}
						b, isB := call.Call.Value.(*ssa.Builtin)
						if !isB || b.Name() != "copy" || call.Call.Args[1] != x {
							ok = false
						}
					}
				case *ssa.DebugRef:
					continue
				}
				c.Check(ok, ks.key("raw-use"), c.Pos(ref), "caller buffer used only as len()/copy source", "caller buffer escapes packetize (stored or passed on)")
			}
		}})

	register(&Rule{ID: "C01.R6", Props: []string{"C01", "C06"}, Engine: "E3",
		Title:   "in-order release: an ordered set leaves the reassembly queue only when complete and not ahead of the cursor; the cursor advances only on an exact match",
		MinInst: 8,
		Run: func(c *RuleCtx) {
			rd := c.Fn("reassemblyQueue.read")
			type spec struct {
				cont, cursor, setType, seq string
				gt                         string
			}
			for _, s := range []spec{
				{"ordered", "nextSSN", "chunkSet", "ssn", "sna16GT"},
				{"orderedMID", "nextMID", "chunkSetMID", "mid", "sna32GT"},
			} {
				cont := c.field("reassemblyQueue", s.cont)
				cur := c.field("reassemblyQueue", s.cursor)
				seq := c.field(s.setType, s.seq)
				complete := c.Fn(s.setType + ".isComplete")
				gt := c.Fn(s.gt)
				st := c.storesIn(rd, cont)
				if len(st) == 0 {
					c.Fail("pop:"+s.cont, "", "no pop of "+s.cont+" in read")
				}
				for _, a := range st {
					c.Dom("pop-needs-complete:"+s.cont, a.Instr, CallCond(complete, true), s.setType+".isComplete()==true")
					c.Dom("pop-needs-not-ahead:"+s.cont, a.Instr, CallCond(gt, false, IsLoadOf(seq), IsLoadOf(cur)), s.gt+"(set."+s.seq+", r."+s.cursor+")==false")
					// the popped element is the head: r.X = r.X[1:]
					sl, ok := unconv(a.Val).(*ssa.Slice)
					okHead := ok && IsLoadOf(cont)(sl.X) && sl.Low != nil && IsConstInt(1)(sl.Low) && sl.High == nil
					c.Check(okHead, "pop-is-head:"+s.cont, c.Pos(a.Instr), "the head element is removed (r."+s.cont+"[1:])", "removal is not of the head element")
				}
				cs := c.storesIn(rd, cur)
				if len(cs) == 0 {
					c.Fail("advance:"+s.cursor, "", "no cursor advance in read")
				}
				for _, a := range cs {
					c.Dom("advance-on-match:"+s.cursor, a.Instr, CmpCond(token.EQL, IsLoadOf(seq), IsLoadOf(cur)), "set."+s.seq+" == r."+s.cursor)
					c.Check(BinV(token.ADD, IsLoadOf(cur), IsConstInt(1))(a.Val), "advance-by-one:"+s.cursor, c.Pos(a.Instr), "cursor <- cursor+1", "cursor not advanced by exactly one")
				}
			}
			// the sets are kept sorted with serial-number comparators
			for _, x := range [][2]string{{"sortChunksByTSN$1", "sna32LT"}, {"sortChunksBySSN$1", "sna16LT"}, {"sortChunksByFSN$1", "sna32LT"}, {"insertChunkSetByMID$1", "sna32LT"}} {
				cl := c.Fn(x[0])
				// exactly one serial-number comparison of the right width (which helper and polarity is a matter of style)
				n := 0
				forEachInstr(cl, func(in ssa.Instruction) {
					if ci, ok := in.(ssa.CallInstruction); ok {
						if w, _, isSna := snaHelper(ci.Common().StaticCallee()); isSna && w == x[1][:5] {
							n++
						}
					}
				})
				c.Check(n >= 1, "sort-cmp:"+x[0], c.P.Pos(cl.Pos()), "comparator uses a "+x[1][:5]+" serial-number comparison", "comparator no longer uses a "+x[1][:5]+" serial-number comparison")
			}
			// completeness of a set: begins with B, ends with E, contiguous
			for _, s := range []struct{ fn, seq string }{{"chunkSet.isComplete", "tsn"}, {"chunkSetMID.isComplete", "fragmentSequenceNumber"}} {
				ic := c.Fn(s.fn)
				n := 0
				forEachInstr(ic, func(in ssa.Instruction) {
					r, ok := in.(*ssa.Return)
					if !ok || len(r.Results) != 1 || !IsConstBool(true)(r.Results[0]) {
						return
					}
					n++
					facts := DomFacts(r.Block())
					var hasB, hasE bool
					for _, f := range facts {
						if lf, _ := loadedField(f.Cond); lf != nil && f.Taken {
							if lf.Name() == "beginningFragment" {
								hasB = true
							}
							if lf.Name() == "endingFragment" {
								hasE = true
							}
						}
					}
					c.Check(hasB && hasE, "complete-needs-B-and-E:"+s.fn, c.Pos(r), "returns true only if first chunk has B and last has E", "may report complete without B/E fragment flags")
				})
				c.Check(n >= 1, "complete-single-true:"+s.fn, c.P.Pos(ic.Pos()), "exactly one 'return true'", fmt.Sprintf("%d 'return true' sites", n))
				// contiguity test exists: a 'return false' dominated by seq != last+1
				seq := c.field("chunkPayloadData", s.seq)
				found := false
				forEachInstr(ic, func(in ssa.Instruction) {
					r, ok := in.(*ssa.Return)
					if !ok || len(r.Results) != 1 || !IsConstBool(false)(r.Results[0]) {
						return
					}
					if DominatedByExt(r, CmpCond(token.NEQ, IsLoadOf(seq), BinV(token.ADD, AnyV, IsConstInt(1)))) {
						found = true
					}
				})
				c.Check(found, "complete-needs-contiguity:"+s.fn, c.P.Pos(ic.Pos()), "a gap in "+s.seq+" makes the set incomplete", "no contiguity test on "+s.seq)
			}
		}})
}
