package main

import (
	"fmt"
	"go/constant"
	"go/token"
	"go/types"
	"sort"
	"strings"

	"golang.org/x/tools/go/ssa"
)

// allowedTransitions: to-state -> from-states allowed, with owner functions.
type fsmEntry struct {
	from   []string
	owners []string
}

var fsmOracle = map[string]fsmEntry{
	"cookieWait":       {[]string{"closed"}, []string{"Association.initClient"}},
	"cookieEchoed":     {[]string{"cookieWait"}, []string{"Association.handleInitAck"}},
	"established":      {[]string{"closed", "cookieWait", "cookieEchoed"}, []string{"Association.establish"}},
	"shutdownPending":  {[]string{"established"}, []string{"Association.Shutdown"}},
	"shutdownSent":     {[]string{"shutdownPending"}, []string{"Association.Shutdown", "Association.advanceShutdownAfterDataDrain"}},
	"shutdownReceived": {[]string{"established", "shutdownPending"}, []string{"Association.handleShutdown", "Association.finishShutdownHandling"}},
	"shutdownAckSent":  {[]string{"shutdownReceived", "shutdownSent"}, []string{"Association.advanceShutdownAfterDataDrain", "Association.finishShutdownHandling", "Association.handleShutdown"}},
	"closed":           {stateConstNames, []string{"Association.close", "Association.readLoop$1", "Association.writeLoop"}},
}

// restore: handleShutdown puts back the entry state when a SHUTDOWN is rejected.
var fsmRestore = map[string][]string{
	"Association.handleShutdown": {"shutdownReceived->established", "shutdownReceived->shutdownPending"},
}

func (p *Prog) EntryPoints() []*ssa.Function {
	seen := map[*ssa.Function]bool{}
	var out []*ssa.Function
	add := func(f *ssa.Function) {
		if f != nil && !seen[f] {
			seen[f] = true
			out = append(out, f)
		}
	}
	for _, r := range p.Roots() {
		add(r)
	}
	for _, fn := range p.Funcs {
		forEachInstr(fn, func(in ssa.Instruction) {
			switch x := in.(type) {
			case *ssa.Go:
				if sc := x.Call.StaticCallee(); sc != nil {
					add(sc)
				} else {
					for _, f := range funcValues(x.Call.Value) {
						add(f)
					}
				}
			case ssa.CallInstruction:
				if sc := x.Common().StaticCallee(); sc != nil && sc.Pkg != nil && sc.Pkg.Pkg.Path() == "time" && sc.Name() == "AfterFunc" {
					for _, a := range x.Common().Args {
						for _, f := range funcValues(a) {
							add(f)
						}
					}
				}
			}
		})
	}
	return out
}

func init() {
	register(&Rule{ID: "C04.R1", Props: []string{"C04", "C08"}, Engine: "E5",
		Title:   "association state machine: every reachable setState transition (from-set → to, per entry point, specialised on the state guards) is in the oracle graph and made by its owner function; established is entered only through establish() after negotiation is finalised",
		MinInst: 16,
		Run: func(c *RuleCtx) {
			e, err := c.P.States()
			if err != nil {
				panic(unresolved{err.Error()})
			}
			type tr struct{ from, to string }
			seen := map[string]bool{}
			sites := map[ssa.Instruction]bool{}
			ks := keyer{}
			for _, root := range c.P.EntryPoints() {
				entry := e.all
				if root.Signature.Recv() == nil && root.Parent() == nil {
					entry = 0 // package-level entry point: no association exists until the constructor stores state=closed
				}
				run := e.Run(root, entry)
				for _, t := range run.Transitions() {
					sites[t.Site] = true
					owner := c.P.FuncName(t.Site.Parent())
					for ti, tn := range e.names {
						if t.To&(1<<uint(ti)) == 0 {
							continue
						}
						for fi, fname := range e.names {
							if t.From&(1<<uint(fi)) == 0 || fi == ti {
								continue
							}
							k := fmt.Sprintf("%s->%s@%s", fname, tn, owner)
							if seen[k] {
								continue
							}
							seen[k] = true
							ent := fsmOracle[tn]
							okFrom, okOwner := false, false
							for _, f := range ent.from {
								if f == fname {
									okFrom = true
								}
							}
							ownersSet := map[*ssa.Function]bool{}
							for _, o := range ent.owners {
								if o == owner {
									okOwner = true
								}
								if of := c.P.Fn(o); of != nil {
									ownersSet[of] = true
								}
							}
							if !okOwner && c.P.OwnedBy(t.Site.Parent(), ownersSet) {
								okOwner = true // a private helper of an owner
							}
							for _, r := range fsmRestore[owner] {
								if r == fname+"->"+tn {
									okFrom, okOwner = true, true
								}
							}
							c.Check(okFrom && okOwner, "transition:"+k, c.Pos(t.Site),
								"transition is in the oracle graph and made by an owner of the target state",
								fmt.Sprintf("transition %s -> %s in %s is not in the oracle (allowed from %v by %v); first reached from entry point %s",
									fname, tn, owner, ent.from, ent.owners, c.P.FuncName(root)))
						}
					}
				}
			}
			// every setState call site in the package was reached by some entry point
			for _, cs := range c.P.CallSitesOf(e.setState) {
				c.Check(sites[cs.Instr], ks.key("setState-site-covered@"+c.P.FuncName(cs.Fn)), c.Pos(cs.Instr),
					"setState site reachable from an entry point and classified", "setState site not reachable from any entry point: transition unclassified")
			}
			// established only via establish(), after updateInterleavingState
			est := c.Fn("Association.establish")
			upd := c.Fn("Association.updateInterleavingState")
			for _, sc := range callsIn(est, e.setState) {
				ok := false
				for _, uc := range callsIn(est, upd) {
					if InstrDominates(uc, sc) {
						ok = DominatedByExt(sc, CmpCond(token.EQL, IsValue(uc.(ssa.Value)), isNilConst))
					}
				}
				c.Check(ok, "establish-after-negotiation", c.Pos(sc), "setState(established) is dominated by a successful updateInterleavingState()", "established can be entered without finalising negotiated options")
			}
		}})

	register(&Rule{ID: "C04.R2", Props: []string{"C04", "C17"}, Engine: "E5b",
		Title:   "negotiation decision table (exhaustive 2^5): interleaving on iff both sides enabled it, I-FORWARD-TSN iff interleaving and peer support, FORWARD-TSN iff no interleaving and peer support; queue mode and payload size follow a change",
		MinInst: 32,
		Run: func(c *RuleCtx) {
			upd := c.Fn("Association.updateInterleavingState")
			fl := c.field("Association", "localInterleaving")
			fp := c.field("Association", "peerInterleaving")
			fF := c.field("Association", "peerForwardTSN")
			fI := c.field("Association", "peerIForwardTSN")
			uI := c.field("Association", "useInterleaving")
			uF := c.field("Association", "useForwardTSN")
			uIF := c.field("Association", "useIForwardTSN")
			mps := c.field("Association", "maxPayloadSize")
			opaque := map[*ssa.Function]bool{c.Fn("pendingQueue.setInterleaving"): true, c.Fn("maxPayloadSizeForMTU"): true}
			b := func(x bool) constant.Value { return constant.MakeBool(x) }
			for m := 0; m < 32; m++ {
				local, peer, pF, pI, old := m&1 != 0, m&2 != 0, m&4 != 0, m&8 != 0, m&16 != 0
				outs, und := c.P.PEval(upd, PEConfig{Fields: map[*types.Var]constant.Value{fl: b(local), fp: b(peer), fF: b(pF), fI: b(pI), uI: b(old)}, Opaque: opaque})
				key := fmt.Sprintf("negotiate:local=%v,peer=%v,peerFwd=%v,peerIFwd=%v,was=%v", local, peer, pF, pI, old)
				if und != "" {
					c.Fail(key, c.P.Pos(upd.Pos()), "UNDECIDED: "+und)
					continue
				}
				wantI := local && peer
				wantIF := wantI && pI && local
				wantF := !wantI && pF
				ok := true
				why := ""
				nOK := 0
				for _, o := range outs {
					if o.Label != "return" || len(o.Ret) != 1 || o.Ret[0] != peNil {
						continue // error path (queue refused the mode switch)
					}
					nOK++
					val := func(f *types.Var, init bool) (bool, bool) {
						if o.Stored[f] {
							v := o.Stores[f]
							if v == nil || v.Kind() != constant.Bool {
								return false, false
							}
							return constant.BoolVal(v), true
						}
						return init, true
					}
					gI, k1 := val(uI, old)
					gF, k2 := o.Stores[uF], o.Stored[uF]
					gIF, k3 := o.Stores[uIF], o.Stored[uIF]
					if !k1 || gI != wantI {
						ok, why = false, fmt.Sprintf("useInterleaving=%v want %v", gI, wantI)
					}
					if !k2 || gF == nil || constant.BoolVal(gF) != wantF {
						ok, why = false, fmt.Sprintf("useForwardTSN=%s want %v", render(gF), wantF)
					}
					if !k3 || gIF == nil || constant.BoolVal(gIF) != wantIF {
						ok, why = false, fmt.Sprintf("useIForwardTSN=%s want %v", render(gIF), wantIF)
					}
					if wantI != old {
						si := o.Called("pendingQueue.setInterleaving")
						if len(si) != 1 || si[0].Args[1] != fmt.Sprint(wantI) {
							ok, why = false, "pending queue not switched to the negotiated mode"
						}
						mp := o.Called("maxPayloadSizeForMTU")
						if len(mp) != 1 || mp[0].Args[1] != fmt.Sprint(wantI) || !o.Stored[mps] {
							ok, why = false, "maxPayloadSize not recomputed for the negotiated framing"
						}
					}
				}
				if nOK == 0 {
					ok, why = false, "no successful path"
				}
				c.Check(ok, key, c.P.Pos(upd.Pos()), fmt.Sprintf("useInterleaving=%v useIForwardTSN=%v useForwardTSN=%v on %d success path(s)", wantI, wantIF, wantF, nOK), "decision table broken: "+why)
			}
			// both INIT and INIT-ACK advertise from localInterleaving
			sse := c.Fn("setSupportedExtensions")
			n := 0
			for _, cs := range c.P.CallSitesOf(sse) {
				if c.P.FuncName(cs.Fn) == "GenerateOutOfBandToken" {
					continue
				}
				n++
				c.Check(IsLoadOf(fl)(callArg(cs.Instr, 1)), "advertise-local@"+c.P.FuncName(cs.Fn), c.Pos(cs.Instr), "setSupportedExtensions(…, a.localInterleaving)", "extensions advertised from something other than localInterleaving")
			}
			c.Check(n >= 2, "advertise-sites", "", "INIT and INIT-ACK builders advertise", fmt.Sprintf("%d advertising sites", n))
			// setSupportedExtensions lists I-DATA and I-FORWARD-TSN iff enabled
			for _, en := range []bool{false, true} {
				outs, und := c.P.PEval(sse, PEConfig{Params: map[int]constant.Value{1: b(en)}})
				key := fmt.Sprintf("extensions-list:interleaving=%v", en)
				if und != "" || len(outs) != 1 {
					c.Fail(key, c.P.Pos(sse.Pos()), fmt.Sprintf("UNDECIDED: %s (%d paths)", und, len(outs)))
					continue
				}
				// the chunk types appended are the constants stored into the slice literals along the path
				got := map[string]bool{}
				forEachInstr(sse, func(in ssa.Instruction) {
					st, ok := in.(*ssa.Store)
					if !ok {
						return
					}
					if k, ok := st.Val.(*ssa.Const); ok && typeShort(k.Type()) == "chunkType" {
						// is the store on the executed path?  use dominance by the enableInterleaving branch
						under := DominatedByExt(st, BoolCond(IsParam(sse, 1), true))
						if !under || en {
							got[k.Value.String()] = true
						}
					}
				})
				want := map[string]bool{c.P.Const("ctReconfig").Val().String(): true, c.P.Const("ctForwardTSN").Val().String(): true}
				if en {
					want[c.P.Const("ctIData").Val().String()] = true
					want[c.P.Const("ctIForwardTSN").Val().String()] = true
				}
				c.Check(fmt.Sprint(sortedKeys(got)) == fmt.Sprint(sortedKeys(want)), key, c.P.Pos(sse.Pos()), fmt.Sprintf("advertised chunk types %v", sortedKeys(got)), fmt.Sprintf("advertised %v want %v", sortedKeys(got), sortedKeys(want)))
			}
		}})

	register(&Rule{ID: "C04.R4", Props: []string{"C04", "C19"}, Engine: "E3",
		Title:   "exhausted handshake retries report failure to the connect call",
		MinInst: 2,
		Run: func(c *RuleCtx) {
			orf := c.Fn("Association.onRetransmissionFailure")
			ch := c.Fn("Association.completeHandshake")
			for _, id := range []string{"timerT1Init", "timerT1Cookie"} {
				k := c.P.Const(id)
				var kv int64
				fmt.Sscan(k.Val().String(), &kv)
				found := false
				forEachInstr(orf, func(in ssa.Instruction) {
					ifi, ok := in.(*ssa.If)
					if !ok {
						return
					}
					cv, t := normCond(ifi.Cond, true)
					if !CmpCond(token.EQL, IsParam(orf, 1), IsConstInt(kv))(cv, t) {
						return
					}
					found = true
					ok2, bad := MustPassFromBlock(ifi.Block().Succs[0], func(x ssa.Instruction) bool {
						ci, ok := x.(ssa.CallInstruction)
						if !ok || ci.Common().StaticCallee() != ch {
							return false
						}
						return !isNilConst(ci.Common().Args[1])
					}, PathOpts{})
					c.Check(ok2, "t1-failure-reported:"+id, c.Pos(ifi), "retry exhaustion ⇒ completeHandshake(non-nil error)", "retry exhaustion path does not report to the connect call: "+c.P.InstrPos(bad))
				})
				if !found {
					c.Fail("t1-failure-reported:"+id, c.P.Pos(orf.Pos()), "no branch for "+id+" in onRetransmissionFailure")
				}
			}
		}})

	register(&Rule{ID: "C04.R7", Props: []string{"C04"}, Engine: "E2-dataflow",
		Title:   "out-of-band establishment uses the right token: peer-derived state comes from the remote INIT, local options from the local INIT, and establish() is always called",
		MinInst: 7,
		Run: func(c *RuleCtx) {
			fn := c.Fn("Association.initWithOutOfBandTokens")
			local, remote := fn.Params[1], fn.Params[2]
			from := func(p *ssa.Parameter) VPat {
				return Derives(func(v ssa.Value) bool {
					_, base := loadedField(v)
					for base != nil {
						if base == p {
							return true
						}
						if fa, ok := base.(*ssa.FieldAddr); ok {
							base = fa.X
						} else {
							break
						}
					}
					return false
				})
			}
			fromRemote, fromLocal := from(remote), from(local)
			chk := func(key string, v ssa.Value, pat VPat, pos ssa.Instruction, what string) {
				c.Check(v != nil && pat(v), key, c.Pos(pos), what, "value does not derive from the expected INIT token: "+what)
			}
			for _, ci := range callsIn(fn, c.Fn("receivePayloadQueue.init")) {
				chk("oob:peer-initial-tsn", callArg(ci, 1), fromRemote, ci, "payloadQueue.init(remote.initialTSN-1)")
				c.Check(BinV(token.SUB, AnyV, IsConstInt(1))(callArg(ci, 1)), "oob:peer-initial-tsn-minus-one", c.Pos(ci), "initial cumulative TSN is initialTSN-1", "initial cumulative TSN is not initialTSN-1")
			}
			for _, ci := range callsIn(fn, c.Fn("Association.setRWND")) {
				chk("oob:rwnd", callArg(ci, 1), fromRemote, ci, "rwnd from remote a_rwnd")
			}
			nZC := 0
			if ssz := c.P.Fn("Association.setSendZeroChecksum"); ssz != nil {
				for _, ci := range callsIn(fn, ssz) {
					nZC++
					chk("oob:zero-checksum", callArg(ci, 1), fromRemote, ci, "send-zero-checksum from the remote INIT's params")
				}
			}
			// ... or learnt in place (the helper inlined): the parameter examined comes from the remote token
			for _, g := range c.P.Region(fn) {
				for _, a := range c.storesIn(g, c.field("Association", "sendZeroChecksum")) {
					b, isB := a.Val.(*ssa.BinOp)
					if !isB {
						continue
					}
					for _, side := range []ssa.Value{b.X, b.Y} {
						ld, isLd := unconv(side).(*ssa.UnOp)
						if !isLd {
							continue
						}
						var src ssa.Value
						switch r := addrRoot(ld.X).(type) {
						case *ssa.Extract:
							if ta, ok := r.Tuple.(*ssa.TypeAssert); ok {
								src = ta.X
							}
						case *ssa.TypeAssert:
							src = r.X
						}
						if src != nil {
							nZC++
							c.Check(derivesFromLocalTokenIdx(src, fn, 2), "oob:zero-checksum", c.Pos(a.Instr), "send-zero-checksum from the remote INIT's params", "value does not derive from the expected INIT token: send-zero-checksum from the remote INIT's params")
						}
					}
				}
			}
			c.Check(nZC >= 1, "oob:zero-checksum-site", c.P.Pos(fn.Pos()), "the send flag is learnt from the remote token", "with out-of-band tokens the send-side zero-checksum flag is never learnt")
			gse := c.Fn("getSupportedExtensions")
			for _, ci := range callsIn(fn, c.Fn("Association.setPeerSupportedExtensions")) {
				arg := callArg(ci, 1)
				call, ok := isCallTo(arg, gse)
				c.Check(ok && fromRemote(call.Call.Args[0]), "oob:peer-extensions", c.Pos(ci), "peer extensions parsed from the remote INIT", "peer extensions not parsed from the remote INIT")
			}
			for _, a := range c.storesIn(fn, c.field("Association", "peerVerificationTag")) {
				chk("oob:peer-tag", a.Val, fromRemote, a.Instr, "peerVerificationTag from remote initiateTag")
			}
			for _, a := range c.storesIn(fn, c.field("Association", "localInterleaving")) {
				ok := false
				if f, base := loadedField(a.Val); f != nil || base != nil {
					ok = true
				}
				if fv, okF := a.Val.(*ssa.Field); okF {
					if call, okC := isCallTo(fv.X, gse); okC {
						ok = fromLocal(call.Call.Args[0])
					}
				}
				c.Check(ok, "oob:local-interleaving", c.Pos(a.Instr), "localInterleaving from the local INIT's extensions", "localInterleaving not derived from the local INIT")
			}
			est := c.Fn("Association.establish")
			okE := entryMustPass(fn, func(in ssa.Instruction) bool {
				ci, ok := in.(ssa.CallInstruction)
				if _, isDefer := in.(*ssa.Defer); isDefer {
					return false
				}
				return ok && ci.Common().StaticCallee() == est
			})
			c.Check(okE, "oob:establish", c.P.Pos(fn.Pos()), "every path calls establish()", "a path returns without establish()")
			// the constructor receives local.initialTSN
			snap := c.Fn("createSNAPAssociation")
			for _, ci := range callsIn(snap, c.Fn("createAssociationFromConfigWithTsn")) {
				f, _ := loadedField(callArg(ci, 1))
				c.Check(f != nil && f.Name() == "initialTSN", "oob:local-initial-tsn", c.Pos(ci), "association created with the local token's initialTSN", "association not created with the local token's initial TSN")
			}
		}})
}

func init() {
	register(&Rule{ID: "C04.R8", Props: []string{"C04"}, Engine: "E3",
		Title:   "duplicate handshake packets are tolerated: the state cookie is generated once (a retransmitted or duplicated INIT is answered with the same cookie), and COOKIE-ECHO is matched against that cookie",
		MinInst: 3,
		Run: func(c *RuleCtx) {
			ck := c.field("Association", "myCookie")
			c.WritersWithin("cookie", ck, "Association.handleInit")
			hi := c.Fn("Association.handleInit")
			for _, a := range c.storesIn(hi, ck) {
				c.Dom("cookie-generated-once", a.Instr, CmpCond(token.EQL, IsLoadOf(ck), isNilConst), "a.myCookie == nil")
			}
			// COOKIE-ECHO is compared with the stored cookie before it can establish
			hce := c.Fn("Association.handleCookieEcho")
			est := c.Fn("Association.establish")
			cookieBytes := c.field("paramStateCookie", "cookie")
			for _, ec := range callsIn(hce, est) {
				ok := DominatedByExt(ec, func(v ssa.Value, t bool) bool {
					call, isCall := v.(*ssa.Call)
					if !isCall || !t {
						return false
					}
					sc := call.Call.StaticCallee()
					return sc != nil && sc.Name() == "Equal" && IsLoadOf(cookieBytes)(call.Call.Args[0])
				})
				c.Check(ok, "cookie-echo-matched", c.Pos(ec), "establish() is dominated by bytes.Equal(myCookie.cookie, echoed)", "COOKIE-ECHO can establish without matching the issued cookie")
			}
		}})
}

func sortedKeys(m map[string]bool) []string {
	var out []string
	for k := range m {
		out = append(out, k)
	}
	sort.Strings(out)
	return out
}

var _ = strings.Join

// C04.R9 — a handshake timer is stopped whenever the state it belongs to is left.
func init() {
	register(&Rule{ID: "C04.R9", Props: []string{"C04", "C19"}, Engine: "E5+E3",
		Title:   "handshake timers follow the state: specialising every entry point on state=COOKIE-WAIT (T1-init) and state=COOKIE-ECHOED (T1-cookie), each transition out of that state is accompanied by a stop/close of that state's timer on the same execution (in the same function the stop dominates the transition or is passed on every path after it), so an established association never keeps retransmitting INIT/COOKIE-ECHO nor reports a handshake failure later",
		MinInst: 4,
		Run: func(c *RuleCtx) {
			e, err := c.P.States()
			if err != nil {
				panic(unresolved{err.Error()})
			}
			stopFns := map[*ssa.Function]bool{c.Fn("rtxTimer.stop"): true, c.Fn("rtxTimer.close"): true}
			ks := keyer{}
			// roots: each inbound chunk handler on its own (so that a stop made by another
			// handler does not count), then every other entry point; transitions inside
			// the handlers' region are judged under the handler roots only.
			var roots, handlers []*ssa.Function
			isHandler := map[*ssa.Function]bool{}
			for _, h := range c.chunkHandlers() {
				handlers = append(handlers, c.Fn(h))
				isHandler[c.Fn(h)] = true
			}
			roots = append(roots, handlers...)
			handlerRegion := c.P.ReachableAvoiding(handlers, nil)
			for _, r := range c.P.EntryPoints() {
				if !isHandler[r] {
					roots = append(roots, r)
				}
			}
			for _, pr := range []struct{ state, timer string }{{"cookieWait", "t1Init"}, {"cookieEchoed", "t1Cookie"}} {
				S := e.Set(pr.state)
				tf := c.field("Association", pr.timer)
				isStop := func(in ssa.Instruction) bool {
					ci, ok := in.(ssa.CallInstruction)
					if !ok {
						return false
					}
					sc := ci.Common().StaticCallee()
					return sc != nil && stopFns[sc] && len(ci.Common().Args) > 0 && IsLoadOf(tf)(ci.Common().Args[0])
				}
				for _, root := range roots {
					if root.Signature.Recv() == nil && root.Parent() == nil {
						continue
					}
					run := e.Run(root, S)
					var stops []ssa.Instruction
					for in := range run.Reach {
						if isStop(in) {
							stops = append(stops, in)
						}
					}
					for _, t := range run.Transitions() {
						if t.From&S == 0 || t.To&S != 0 {
							continue
						}
						if !isHandler[root] && (handlerRegion[t.Site.Parent()] != nil || isHandler[t.Site.Parent()]) && c.P.ReachableAvoiding([]*ssa.Function{root}, isHandler)[t.Site.Parent()] == nil {
							continue // reached only through a chunk handler: judged under that handler's own root
						}
						key := ks.key(fmt.Sprintf("stop-%s-on-leaving-%s@%s:%s", pr.timer, pr.state, c.P.FuncName(root), c.P.FuncName(t.Site.Parent())))
						if len(stops) == 0 {
							c.Fail(key, c.Pos(t.Site), fmt.Sprintf("entry point %s leaves %s (to %s) without ever stopping %s: the timer keeps firing in the new state", c.P.FuncName(root), pr.state, e.String(t.To), pr.timer))
							continue
						}
						// path check inside one function: find the instruction in the stop's function that leads to the transition
						ok, why := false, ""
						for _, k := range stops {
							fn := k.Parent()
							var via []ssa.Instruction
							if t.Site.Parent() == fn {
								via = append(via, t.Site)
							} else {
								forEachInstr(fn, func(in ssa.Instruction) {
									ci, isCall := in.(ssa.CallInstruction)
									if !isCall {
										return
									}
									if sc := ci.Common().StaticCallee(); sc != nil && c.P.inPkg(sc) && run.Funcs[sc] && (sc == t.Site.Parent() || c.P.ReachableAvoiding([]*ssa.Function{sc}, nil)[t.Site.Parent()] != nil) {
										if st, reached := run.Reach[in]; reached && st&S != 0 {
											via = append(via, in)
										}
									}
								})
							}
							if len(via) == 0 {
								// the stop is in another function than the one leading to the transition: accept on reachability
								ok = true
								continue
							}
							all := true
							for _, v := range via {
								if InstrDominates(k, v) {
									continue
								}
								if okAfter, _ := MustPass(v, func(x ssa.Instruction) bool { return x == k }, nil); okAfter {
									continue
								}
								all = false
								why = fmt.Sprintf("%s at %s neither dominates nor follows on all paths the transition at %s", pr.timer+".stop", c.Pos(k), c.Pos(v))
							}
							if all {
								ok = true
							}
						}
						c.Check(ok, key, c.Pos(t.Site), fmt.Sprintf("%s stopped on the execution that leaves %s", pr.timer, pr.state), why)
					}
				}
			}
		}})
}
