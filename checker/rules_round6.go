package main

import (
	"fmt"
	"go/token"
	"go/types"
	"strings"

	"golang.org/x/tools/go/ssa"
)

func init() {
	register(&Rule{ID: "C14.R13", Props: []string{"C14"}, Engine: "E3",
		Title:   "the second RE-CONFIG parameter is processed whether or not the first produced a reply: in handleReconfig no branch on the packet returned by handleReconfigParam changes which further handleReconfigParam calls are reached (a response parameter yields no reply packet; the peer's own reset request bundled behind it must still be applied, or the stream never sees EOF and its identifier can never be reused)",
		MinInst: 1,
		Run: func(c *RuleCtx) {
			fn := c.Fn("Association.handleReconfig")
			hp := c.Fn("Association.handleReconfigParam")
			ks := keyer{}
			n := 0
			for _, g := range c.P.Region(fn) {
				calls := callsIn(g, hp)
				forEachInstr(g, func(in ssa.Instruction) {
					ifi, ok := in.(*ssa.If)
					if !ok {
						return
					}
					// does the condition derive from the packet result (#0) of a handleReconfigParam call?
					fromPkt := derives(ifi.Cond, func(v ssa.Value) bool {
						ex, isEx := v.(*ssa.Extract)
						if !isEx || ex.Index != 0 {
							return false
						}
						call, isCall := ex.Tuple.(*ssa.Call)
						return isCall && call.Call.StaticCallee() == hp
					}, map[ssa.Value]bool{})
					if !fromPkt {
						return
					}
					n++
					b := ifi.Block()
					reach := func(s *ssa.BasicBlock) string {
						var out []string
						for _, cs := range calls {
							ci := cs.(ssa.Instruction)
							if len(s.Instrs) > 0 && (ci.Block() == s || CanReach(s.Instrs[0], ci)) {
								out = append(out, c.Pos(ci))
							}
						}
						return strings.Join(out, ",")
					}
					r0, r1 := reach(b.Succs[0]), reach(b.Succs[1])
					c.Check(r0 == r1, ks.key("reply-does-not-gate-next-param"), c.Pos(in), "both outcomes of the reply test reach the same further parameter handling", "whether the previous parameter produced a reply packet decides whether the next parameter is handled (reached calls: ["+r0+"] vs ["+r1+"]): a reset request bundled behind a response is dropped")
				})
			}
			c.Check(n >= 1, "reply-tests", c.P.Pos(fn.Pos()), fmt.Sprintf("%d test(s) on the reply packet", n), "no test on handleReconfigParam's reply packet found")
		}})

	register(&Rule{ID: "C17.R13", Props: []string{"C17"}, Engine: "E2-exhaustive",
		Title:   "cloning the interleaving settings copies every field: cloneInterleavingSettings stores each field of interleavingSettings into the clone (WithInterleavingOptions always works on a clone of what applyDefaults installed, so a field the clone forgets silently reverts every option that depends on it — e.g. configured WFQ weights never reach the scheduler)",
		MinInst: 2,
		Run: func(c *RuleCtx) {
			fn := c.Fn("cloneInterleavingSettings")
			_, st := c.P.NamedStruct("interleavingSettings")
			if st == nil {
				c.Unresolved("type interleavingSettings")
				return
			}
			written := map[string]bool{}
			for _, g := range c.P.Region(fn) {
				forEachInstr(g, func(in ssa.Instruction) {
					if s, ok := in.(*ssa.Store); ok {
						if fa, ok := s.Addr.(*ssa.FieldAddr); ok && typeShort(fa.X.Type()) == "*interleavingSettings" {
							written[fieldOf(fa.X.Type(), fa.Field).Name()] = true
						}
					}
				})
			}
			// a whole-struct copy (*clone = *s) copies everything
			whole := false
			forEachInstr(fn, func(in ssa.Instruction) {
				if s, ok := in.(*ssa.Store); ok {
					if u, isU := s.Val.(*ssa.UnOp); isU && u.Op == token.MUL && typeShort(u.X.Type()) == "*interleavingSettings" {
						whole = true
					}
				}
			})
			for i := 0; i < st.NumFields(); i++ {
				f := st.Field(i).Name()
				c.Check(whole || written[f], "clone-copies:"+f, c.P.Pos(fn.Pos()), "field "+f+" is copied", "cloneInterleavingSettings does not copy "+f+": options applied to the clone lose it")
			}
		}})

	register(&Rule{ID: "C18.R13", Props: []string{"C18", "C09"}, Engine: "E3-mustpass",
		Title:   "every way of taking the last pending chunk lowers the blocking-write gate: in popPendingDataChunksToSend each path from a movePendingDataChunkToInflightQueue call to a return passes the drain test that leads to notifyBlockWritable — an early return on the zero-window-probe path would leave writePending set with nothing pending, and every later blocking Write stalls",
		MinInst: 2,
		Run: func(c *RuleCtx) {
			fn := c.Fn("Association.popPendingDataChunksToSend")
			mv := c.Fn("Association.movePendingDataChunkToInflightQueue")
			nb := c.P.Fn("Association.notifyBlockWritable") // may have been inlined
			bw := c.field("Association", "blockWrite")
			wp := c.field("Association", "writePending")
			// the drain point: inside pop, every If that dominates a notification carrier — the call of
			// notifyBlockWritable, a call of a helper that (transitively) notifies, or the inlined
			// store writePending = false — and does not sit in a loop together with a move
			_ = bw
			var carriers []ssa.Instruction
			forEachInstr(fn, func(in ssa.Instruction) {
				switch x := in.(type) {
				case ssa.CallInstruction:
					sc := x.Common().StaticCallee()
					if sc == nil || !c.P.inPkg(sc) {
						return
					}
					if sc == nb || (nb != nil && len(callsInDeep(sc, nb, 2)) > 0) {
						carriers = append(carriers, in)
						return
					}
					// helper that lowers the gate itself
					lowers := false
					forEachInstrDeep(c.P, sc, 1, func(y ssa.Instruction) {
						if st, ok := y.(*ssa.Store); ok && fieldOfAddr(st.Addr) == wp && IsConstBool(false)(st.Val) {
							lowers = true
						}
					})
					if lowers && sc != mv {
						carriers = append(carriers, in)
					}
				case *ssa.Store:
					if fieldOfAddr(x.Addr) == wp && IsConstBool(false)(x.Val) {
						carriers = append(carriers, in)
					}
				}
			})
			moveLoops := map[*ssa.BasicBlock]bool{}
			for _, ms := range callsIn(fn, mv) {
				for b := range loopBlocks(ms.(ssa.Instruction).Block()) {
					moveLoops[b] = true
				}
			}
			var drain []*ssa.If
			for _, cr := range carriers {
				for d := cr.Block(); d != nil; d = d.Idom() {
					if len(d.Instrs) == 0 || moveLoops[d] {
						continue
					}
					if ifi, ok := d.Instrs[len(d.Instrs)-1].(*ssa.If); ok && d != cr.Block() {
						drain = append(drain, ifi)
					}
				}
			}
			c.Check(len(drain) >= 1, "drain-test", c.P.Pos(fn.Pos()), "the drain test guarding notifyBlockWritable was found", "no drain test (blockWrite … notifyBlockWritable) found in popPendingDataChunksToSend")
			if len(drain) == 0 {
				return
			}
			ks := keyer{}
			for _, ms := range callsIn(fn, mv) {
				ok, bad := MustPass(ms.(ssa.Instruction), func(x ssa.Instruction) bool {
					for _, d := range drain {
						if x == ssa.Instruction(d) {
							return true
						}
					}
					return false
				}, nil)
				c.Check(ok, ks.key("move-then-drain-test"), c.Pos(ms.(ssa.Instruction)), "every path onwards passes the drain test", "a chunk is taken from the pending queue and a path returns without the drain test ("+c.P.InstrPos(bad)+"): if it was the last pending chunk, blocked writers are never released")
			}
		}})

	register(&Rule{ID: "C19.R15", Props: []string{"C19"}, Engine: "E3-sibling",
		Title:   "a stale expiry leaves a restarted timer alone: in ackTimer.timeout and rtxTimer.timeout every store to the timer's state (and every observer call) is dominated by pending == 0 after the decrement — an expiry that lost the race with stop()+start() must only give back its count, or the fresh 200 ms delayed-ack period is silently cancelled and the SACK waits for the peer's retransmission",
		MinInst: 2,
		Run: func(c *RuleCtx) {
			ks := keyer{}
			for _, tn := range []string{"ackTimer", "rtxTimer"} {
				fn := c.Fn(tn + ".timeout")
				st := c.field(tn, "state")
				pd := c.field(tn, "pending")
				n := 0
				for _, a := range c.storesInRegion(fn, st) {
					n++
					ok := DominatedByExt(a.Instr, CmpCond(token.EQL, Or(IsLoadOf(pd), BinV(token.SUB, IsLoadOf(pd), IsConstInt(1))), IsConstInt(0)))
					c.Check(ok, ks.key("state-change-only-for-last-expiry:"+tn), c.Pos(a.Instr), "dominated by pending == 0", tn+".timeout changes the timer state for an expiry that is not the last outstanding one ("+c.describeConds(a.Instr)+"): a timer restarted in the meantime is stopped without notifying anyone")
				}
				c.Check(n >= 1, ks.key("state-stores:"+tn), c.P.Pos(fn.Pos()), fmt.Sprintf("%d state store(s)", n), tn+".timeout no longer stores a state")
			}
		}})

	register(&Rule{ID: "C19.R16", Props: []string{"C19"}, Engine: "E3-sibling",
		Title:   "the RTO manager and the retransmission timers agree on the ceiling: newRTOManager and newRTXTimer replace a given RTO maximum by the default under one and the same condition ('not configured') — a test that differs between them makes a configured ceiling equal to the minimum (1 s) bound the RTO but not the timers' back-off, which then doubles up to 60 s",
		MinInst: 2,
		Run: func(c *RuleCtx) {
			def := c.P.Const("defaultRTOMax")
			if def == nil {
				c.Unresolved("const defaultRTOMax")
				return
			}
			conds := map[string]string{}
			for _, o := range []struct{ fn, typ string }{{"newRTOManager", "rtoManager"}, {"newRTXTimer", "rtxTimer"}} {
				fn := c.Fn(o.fn)
				f := c.field(o.typ, "rtoMax")
				var descr []string
				for _, a := range c.storesInRegion(fn, f) {
					for _, lf := range leavesWithFacts(a.Val) {
						k, isK := unconv(lf.Val).(*ssa.Const)
						if !isK || k.Value == nil || k.Value.String() != def.Val().String() {
							continue
						}
						for _, ft := range append(append([]condFact{}, lf.Facts...), localFactsUpTo(a.Instr, fn)...) {
							// normalise "x op k" with the taken side folded in
							d := shortValue(c.P, ft.Cond)
							if b, ok := ft.Cond.(*ssa.BinOp); ok {
								op := b.Op
								if !ft.Taken {
									op = invertOp(op)
								}
								rhs := shortValue(c.P, b.Y)
								if k2, isK2 := b.Y.(*ssa.Const); isK2 && k2.Value != nil {
									rhs = k2.Value.String()
								}
								d = "rtoMax " + op.String() + " " + rhs
							}
							descr = append(descr, d)
						}
					}
				}
				conds[o.fn] = strings.Join(descr, " && ")
				c.Check(len(descr) >= 1, "default-ceiling-site:"+o.fn, c.P.Pos(fn.Pos()), "defaultRTOMax substituted under ["+conds[o.fn]+"]", o.fn+" no longer substitutes the default ceiling for an unset maximum")
			}
			a, b := conds["newRTOManager"], conds["newRTXTimer"]
			c.Check(a == b && a != "", "default-ceiling-agrees", "", "both constructors substitute the default under ["+a+"]", "newRTOManager substitutes the default ceiling under ["+a+"] but newRTXTimer under ["+b+"]: for a configured maximum in the difference the RTO is bounded by it while the timers' back-off runs up to 60 s")
		}})
}

// cmpFloatZero: the fact is "x == 0" (taken) or "x != 0" (not taken) with a float zero constant.
func cmpFloatZero(f condFact) bool {
	b, ok := f.Cond.(*ssa.BinOp)
	if !ok || (b.Op != token.EQL && b.Op != token.NEQ) || (b.Op == token.EQL) != f.Taken {
		return false
	}
	for _, v := range []ssa.Value{b.X, b.Y} {
		if k, isK := v.(*ssa.Const); isK && k.Value != nil {
			if bt, isB := k.Type().Underlying().(*types.Basic); isB && bt.Info()&types.IsFloat != 0 && (k.Value.String() == "0" || k.Value.ExactString() == "0") {
				return true
			}
		}
	}
	return false
}

// enclosingIfOn: the innermost dominating If whose condition matches pat, on its true side.
func enclosingIfOn(in ssa.Instruction, pat VPat) *ssa.If {
	for d := in.Block().Idom(); d != nil; d = d.Idom() {
		if len(d.Instrs) == 0 {
			continue
		}
		if ifi, ok := d.Instrs[len(d.Instrs)-1].(*ssa.If); ok && pat(ifi.Cond) {
			return ifi
		}
	}
	return nil
}

func init() {
	register(&Rule{ID: "C03.R17", Props: []string{"C03", "C05"}, Engine: "E3",
		Title:   "every Gap Ack Block of a SACK is checked against the in-flight queue before anything is applied: in processSelectiveAck the presence of cumulativeTSNAck+start and of cumulativeTSNAck+end is looked up once per block (inside the loop over the blocks) at a point no queue mutation can precede — checking only the first start and the last end trusts the peer to send the blocks in ascending order, and an unsorted SACK is then half applied (chunks popped and emptied, then an error before the ack point moves), wedging the sender",
		MinInst: 2,
		Run: func(c *RuleCtx) {
			fn := c.Fn("Association.processSelectiveAck")
			get := c.Fn("payloadQueue.get")
			pop := c.Fn("payloadQueue.pop")
			mark := c.Fn("payloadQueue.markAsAcked")
			var muts []ssa.Instruction
			for _, g := range c.P.Region(fn) {
				for _, m := range []*ssa.Function{pop, mark} {
					for _, cs := range callsIn(g, m) {
						muts = append(muts, cs.(ssa.Instruction))
					}
				}
			}
			for _, fname := range []string{"start", "end"} {
				f := c.field("gapAckBlock", fname)
				n := 0
				for _, g := range c.P.Region(fn) {
					var lookups []ssa.CallInstruction
					forEachInstr(g, func(y ssa.Instruction) {
						ci, ok := y.(ssa.CallInstruction)
						if !ok {
							return
						}
						sc := ci.Common().StaticCallee()
						// the queue lookup itself, or a small presence helper wrapping it
						if sc != nil && (sc == get || (c.P.inPkg(sc) && sc != fn && len(callsInDeep(sc, get, 2)) > 0 && len(callsInDeep(sc, pop, 2)) == 0 && len(callsInDeep(sc, mark, 2)) == 0)) {
							lookups = append(lookups, ci)
						}
					})
					for _, cs := range lookups {
						in := cs.(ssa.Instruction)
						fromField := false
						for _, arg := range cs.Common().Args {
							if derives(arg, func(v ssa.Value) bool {
								fld, _ := loadedField(v)
								if fld == f {
									return true
								}
								if fv, isF := v.(*ssa.Field); isF {
									return fieldOf(fv.X.Type(), fv.Field) == f
								}
								return false
							}, map[ssa.Value]bool{}) {
								fromField = true
							}
						}
						if !fromField {
							continue
						}
						// where the lookup happens from the point of view of processSelectiveAck: the
						// instruction itself, or the call site(s) of the validation helper it sits in
						sites := []ssa.Instruction{in}
						if in.Parent() != fn {
							sites = nil
							for _, cs2 := range c.P.CallSitesOf(in.Parent()) {
								if c.P.OwnedBy(cs2.Fn, map[*ssa.Function]bool{fn: true}) || cs2.Fn == fn {
									sites = append(sites, cs2.Instr)
								}
							}
						}
						for _, site := range sites {
							if !inLoop(site) && !inLoop(in) {
								continue // a single lookup outside the per-block loop does not cover every block
							}
							after := false
							for _, m := range muts {
								if m.Parent() == site.Parent() && CanReach(m, site) {
									after = true
								}
							}
							if !after {
								n++
							}
						}
					}
				}
				c.Check(n >= 1, "per-block-lookup:"+fname, c.P.Pos(fn.Pos()), "cumulativeTSNAck+"+fname+" of every block is looked up before any queue mutation", "no per-block presence check of cumulativeTSNAck+"+fname+" precedes the queue mutations: a SACK whose blocks are not in ascending order is applied halfway and then rejected, leaving popped/emptied chunks behind")
			}
		}})

	register(&Rule{ID: "C07.R11", Props: []string{"C07"}, Engine: "E3",
		Title:   "a forward-TSN names every stream it skips in: in createForwardTSN / createIForwardTSN the per-stream entry is updated for every abandoned chunk in the forwarded range, whatever fragment of its message it is — the update is conditioned only on the chunk's abandonment, order flag and the serial comparison with the entry collected so far (the first fragment may already have been acknowledged and left the queue, so 'account for a message at its first fragment' names no stream at all and the receiver's next-expected MID/SSN never moves)",
		MinInst: 2,
		Run: func(c *RuleCtx) {
			ks := keyer{}
			bf := c.field("chunkPayloadData", "beginningFragment")
			ef := c.field("chunkPayloadData", "endingFragment")
			for _, name := range []string{"Association.createForwardTSN", "Association.createIForwardTSN"} {
				fn := c.Fn(name)
				n := 0
				for _, g := range c.P.Region(fn) {
					forEachInstr(g, func(in ssa.Instruction) {
						mu, ok := in.(*ssa.MapUpdate)
						if !ok {
							return
						}
						if _, isMake := mu.Map.(*ssa.MakeMap); !isMake {
							if ph, isPhi := mu.Map.(*ssa.Phi); !isPhi || ph == nil {
								return
							}
						}
						n++
						var bad []string
						for _, f := range localFactsUpTo(in, fn) {
							if derives(f.Cond, Or(IsLoadOf(bf), IsLoadOf(ef)), map[ssa.Value]bool{}) {
								bad = append(bad, fmt.Sprintf("%s=%v", shortValue(c.P, f.Cond), f.Taken))
							}
						}
						c.Check(len(bad) == 0, ks.key("entry-for-any-fragment@"+name), c.Pos(in), "the stream entry is updated whatever fragment the abandoned chunk is", "the stream entry is updated only if "+strings.Join(bad, " ∧ ")+": when that fragment has already left the in-flight queue the stream is not named and the receiver never skips the message")
					})
				}
				c.Check(n >= 1, ks.key("entry-sites@"+name), c.P.Pos(fn.Pos()), fmt.Sprintf("%d entry update(s)", n), "no per-stream entry update found in "+name)
			}
		}})

	register(&Rule{ID: "C11.R8", Props: []string{"C11", "C10", "C18"}, Engine: "E3",
		Title:   "an unset field of a legacy Config value never overrides an option given before it: in Config.applyClient / applyServer every copy of a numeric or pointer option whose zero value means 'not set' (MTU, buffer and message sizes, RTO ceiling, congestion knobs, reassembly limit, logger, connection) is dominated by a test that the source field is non-zero — ClientWithOptions(WithMTU(800), cfg) must keep 800 although cfg.MTU is 0",
		MinInst: 10,
		Run: func(c *RuleCtx) {
			cfgObj := c.P.Types.Scope().Lookup("Config")
			st, _ := cfgObj.Type().Underlying().(*types.Struct)
			ks := keyer{}
			for _, fnName := range []string{"Config.applyClient", "Config.applyServer"} {
				fn := c.Fn(fnName)
				// the fields this function copies under a non-zero guard on today's reviewed tree are
				// exactly the numeric / interface-typed ones; booleans and sub-structs are copied as they are
				for i := 0; i < st.NumFields(); i++ {
					f := st.Field(i)
					guardable := false
					switch t := f.Type().Underlying().(type) {
					case *types.Basic:
						guardable = t.Info()&(types.IsNumeric|types.IsString) != 0
					case *types.Interface:
						guardable = true
					}
					if !guardable {
						continue
					}
					for _, g := range c.P.Region(fn) {
						for _, a := range c.storesIn(g, f) {
							src := map[string]bool{}
							cfgSources(a.Val, 0, src, map[ssa.Value]bool{})
							if !src[f.Name()] {
								continue
							}
							ok := DominatedByExt(a.Instr, func(cv ssa.Value, tk bool) bool {
								b, isB := cv.(*ssa.BinOp)
								if !isB || (b.Op != token.NEQ && b.Op != token.EQL && b.Op != token.GTR) {
									return false
								}
								zero := func(v ssa.Value) bool {
									k, isK := v.(*ssa.Const)
									return isK && (k.Value == nil || k.Value.String() == "0" || k.Value.String() == `""`)
								}
								var other ssa.Value
								switch {
								case zero(b.Y):
									other = b.X
								case zero(b.X):
									other = b.Y
								default:
									return false
								}
								fld, base := loadedField(other)
								if fld != f || base == nil || !isConfigType(base.Type()) {
									if fv, isF := other.(*ssa.Field); !isF || fieldOf(fv.X.Type(), fv.Field) != f {
										return false
									}
								}
								return (b.Op == token.EQL) != tk
							})
							c.Check(ok, ks.key("copied-only-when-set:"+f.Name()+"@"+fnName), c.Pos(a.Instr), "copied only when the source field is set", "Config."+f.Name()+" is copied even when it is zero: a value given by an earlier option is overwritten with 'unset' and then replaced by the default")
						}
					}
				}
			}
		}})
}

func init() {
	register(&Rule{ID: "C18.R14", Props: []string{"C18", "C20", "C09"}, Engine: "E3-mustpass",
		Title:   "whoever ends the read side wakes the readers: every store of a non-nil error into Stream.readErr (deadline expiry, inbound reset, unregistration) is followed on all paths by readNotifier.Signal()/Broadcast() — a reader already parked in ReadSCTP re-checks readErr only when woken, so a 'fast path' that records the error without the wake-up leaves it blocked (e.g. SetReadDeadline with a deadline in the past, the net.Conn idiom for interrupting a read)",
		MinInst: 3,
		Run: func(c *RuleCtx) {
			re := c.field("Stream", "readErr")
			rn := c.field("Stream", "readNotifier")
			ks := keyer{}
			for _, a := range c.P.Writes(re) {
				if a.Kind != AccWrite || isNilConst(a.Val) {
					continue
				}
				fn := a.Fn
				wakes := map[ssa.Instruction]bool{}
				for _, m := range []string{"Signal", "Broadcast"} {
					for _, ci := range callsOnField(fn, rn, m) {
						wakes[ci.(ssa.Instruction)] = true
					}
				}
				ok, bad := MustPass(a.Instr, func(x ssa.Instruction) bool {
					if wakes[x] {
						return true
					}
					// a helper that always wakes
					return helperAlwaysPasses(x, func(y ssa.Instruction) bool {
						cj, isCall := y.(ssa.CallInstruction)
						if !isCall {
							return false
						}
						for _, m := range []string{"Signal", "Broadcast"} {
							for _, w := range callsOnField(y.Parent(), rn, m) {
								if w == cj {
									return true
								}
							}
						}
						return false
					}, 0)
				}, nil)
				c.Check(ok, ks.key("read-error-wakes-readers@"+c.P.FuncName(fn)), c.Pos(a.Instr), "every path after the store wakes the readers", "readErr is set and a path leaves without waking the readers ("+c.P.InstrPos(bad)+"): a Read blocked on this stream is not interrupted")
			}
		}})

	register(&Rule{ID: "C15.R9", Props: []string{"C15"}, Engine: "E2",
		Title:   "the low-threshold callback stays installed as long as bytes can be released: Stream.onBufferedAmountLow is written only by the OnBufferedAmountLow setter — Close() (after which data written before it is still buffered and acknowledged) or any other internal path must not clear it, or the downward crossing that follows goes unreported",
		MinInst: 1,
		Run: func(c *RuleCtx) {
			n := c.WritersWithin("callback", c.field("Stream", "onBufferedAmountLow"), "Stream.OnBufferedAmountLow")
			c.Check(n >= 1, "callback-setter", "", fmt.Sprintf("%d write(s), all in the setter", n), "the callback is never installed")
		}})
}
