package sctp

import (
	"testing"

	"github.com/stretchr/testify/require"
)

// f5Sender builds an established association (no read/write loops) and puts
// n messages of size bytes each in flight through the real send path.
func f5Sender(t *testing.T, n, size int, cwnd uint32) (*Association, uint32) {
	t.Helper()

	a := createTestAssociation(t, Config{})
	a.lock.Lock()
	a.setState(established)
	a.peerVerificationTag = 1
	a.sourcePort = defaultSCTPSrcDstPort
	a.destinationPort = defaultSCTPSrcDstPort
	a.setRWND(1 << 20)
	a.ssthresh = 1 << 20
	if cwnd != 0 {
		a.setCWND(cwnd)
	}
	firstTSN := a.myNextTSN
	a.lock.Unlock()

	s, err := a.OpenStream(1, PayloadTypeWebRTCBinary)
	require.NoError(t, err)
	for range n {
		_, err = s.WriteSCTP(make([]byte, size), PayloadTypeWebRTCBinary)
		require.NoError(t, err)
	}
	pkts, _ := a.gatherOutbound()
	require.NotEmpty(t, pkts)
	require.Equal(t, n, a.inflightQueue.size(), "all messages fit in cwnd")

	return a, firstTSN
}

func f5Sack(t *testing.T, a *Association, cumTSN uint32, gaps ...gapAckBlock) {
	t.Helper()

	sack := &chunkSelectiveAck{
		cumulativeTSNAck:               cumTSN,
		advertisedReceiverWindowCredit: 1 << 20,
		gapAckBlocks:                   gaps,
	}
	raw, err := a.createPacket([]chunk{sack}).marshal(true)
	require.NoError(t, err)
	require.NoError(t, a.handleInbound(raw))
}

// C10 "the congestion window is cut on every loss signal": a loss declared by RACK
// (chunk marked lost and retransmitted) leaves cwnd and ssthresh untouched.
func TestF5_RackLossDoesNotCutCwnd(t *testing.T) {
	a, first := f5Sender(t, 4, 1000, 20*1191) // 4000 bytes outstanding, cwnd 20 MTU: plenty of room for a cut

	cwndBefore, ssthreshBefore := a.CWND(), a.ssthresh

	// One SACK: first TSN missing, second TSN received. RACK (reoWnd = 0: no
	// reordering seen and T3 running) declares the first TSN lost right away.
	f5Sack(t, a, first-1, gapAckBlock{start: 2, end: 2})

	a.lock.Lock()
	lost, ok := a.inflightQueue.get(first)
	require.True(t, ok)
	markedLost := lost.retransmit
	inFR := a.inFastRecovery
	a.lock.Unlock()
	require.True(t, markedLost, "RACK declared the first TSN lost (loss signal)")
	require.False(t, inFR, "classic fast-retransmit (3 miss indications) has not triggered")

	// the lost chunk is really retransmitted
	pkts, _ := a.gatherOutbound()
	require.NotEmpty(t, pkts)
	require.Equal(t, uint32(2), lost.nSent, "lost chunk was retransmitted")

	t.Logf("cwnd before=%d after=%d, ssthresh before=%d after=%d", cwndBefore, a.CWND(), ssthreshBefore, a.ssthresh)
	require.Lessf(t, a.CWND(), cwndBefore,
		"cwnd must be cut on a loss signal: before=%d after=%d (ssthresh %d -> %d)",
		cwndBefore, a.CWND(), ssthreshBefore, a.ssthresh)
}
